"""C20 - File interception preserves file bytes and honours the size limit.

  C20.a  R-DOM       the size test dominates every read of the intercepted file; above the limit the placeholder is returned
                     without opening the file; the test is strict (size > limit), same unit on both sides, "no limit" is None
  C20.b  R-AGREE     every open that reads or writes intercepted content is binary
  C20.c  R-AGREE     serialise / deserialise are an inverse codec pair applied to the whole content once; envelope keys agree;
                     the placeholder comparison uses the constant the placeholder result writes, which no base64 text can equal
  C20.d  R-PROV      record and input-restore take the path from one function (keyword first, then position) of the current
                     call; input restore writes the recorded bytes on every path; output restore builds the holder from
                     (content, recorded path)
  C20.e  R-DECISION  limit source: explicit limit if not None, else the environment variable, else the default
"""
import ast
import string

from ..report import Result, Finding
from ..loader import walk_own, norm, AnalysisError
from ..resolve import RepoPolicy
from .. import small


def self_attr(e):
    if isinstance(e, ast.Attribute) and isinstance(e.value, ast.Name) and e.value.id == 'self':
        return e.attr
    return None


class FileDomain(small.SmallDomain):
    def __init__(self, *a, **kw):
        self.size_test = kw.pop('size_test')
        small.SmallDomain.__init__(self, *a, **kw)
        self.opens = []

    def on_stmt(self, node, state):
        if node.kind == 'leave' and node.info.get('mode') == 'value' and node.info['callee'].func is self.size_test and \
                state.extra.get('size_checked') is None:
            return state.with_extra(size_checked='value')
        return state

    def t_branch(self, node, state):
        outs = small.SmallDomain.t_branch(self, node, state)
        test = node.info.get('test')
        if test is None or not isinstance(test, ast.Compare) or len(test.ops) != 1:
            return outs
        limit_sides = [self_attr(x) == 'intercepted_size_limit' for x in (test.left, test.comparators[0])]
        if not any(limit_sides):
            return outs
        op = test.ops[0]
        res_ = []
        for lab, st in outs:
            verdict = None
            if isinstance(op, (ast.Is, ast.IsNot)) and isinstance(test.comparators[0], ast.Constant) and test.comparators[0].value is None:
                is_none = (lab == 'true') == isinstance(op, ast.Is)
                verdict = 'within' if is_none else None          # no limit configured: everything is within
            elif isinstance(op, (ast.Gt, ast.GtE, ast.Lt, ast.LtE)):
                size_left = limit_sides[1]
                above_when_true = (size_left and isinstance(op, (ast.Gt, ast.GtE))) or (not size_left and isinstance(op, (ast.Lt, ast.LtE)))
                verdict = 'above' if (lab == 'true') == above_when_true else 'within'
            res_.append((lab, st.with_extra(size_checked=verdict) if verdict is not None else st))
        return res_

    def on_call_attempt(self, node, t, state):
        if t.label in ('builtin:open', 'lib:io.open') or t.label.startswith('method:read'):
            self.opens.append((node, t, state))
        return small.SmallDomain.on_call_attempt(self, node, t, state)


def run(ctx):
    res = Result('C20')
    repo = ctx.repo
    fi = repo.find_class('FileInterception')
    inp = repo.find_class('InputInterceptionFileDataHandler')
    outp = repo.find_class('OutputInterceptionFileDataHandler')
    holder = repo.find_class('InterceptedOutputFileHolder')
    if None in (fi, inp, outp, holder):
        raise AnalysisError('anchor-lost file interception classes')
    res.explanation = (
        'Decides the structure of file interception: on the graph of the interception routine with the size predicate inlined, every '
        'open / read of the intercepted file happens only after the predicate answered "within the limit", and the "above" answer '
        'returns the placeholder; the predicate is strict, unit-consistent and uses None for "no limit"; all opens are binary; the '
        'codec pair, the envelope keys and the placeholder constant agree between writer and reader; paths come from one function of '
        'the current call; input restore writes on every path. Not decided: byte equality through recorder and cassette, filesystem races.')
    res.not_decided = ['byte equality through recorder and cassette (jsonpickle bytes handling)', 'filesystem races between size test and read']
    ca = res.clause('C20.a', 'R-DOM', 'size test dominates the read; strict; unit consistent; None = no limit', floor=4)
    cb = res.clause('C20.b', 'R-AGREE', 'binary modes everywhere', floor=3)
    cc = res.clause('C20.c', 'R-AGREE', 'codec pair, envelope keys, placeholder constant', floor=4)
    cd = res.clause('C20.d', 'R-PROV', 'paths from one function of the current call; restore writes on every path', floor=4)
    ce = res.clause('C20.e', 'R-DECISION', 'limit source order', floor=1)
    def one(pred, role):
        ms = [m for m in fi.methods.values() if m.name != '__init__' and pred(m)]
        if len(ms) != 1:
            raise AnalysisError('anchor-lost role=%s (candidates %s)' % (role, [m.name for m in ms]))
        return ms[0]

    def has_call(m, *names):
        return any(isinstance(n, ast.Call) and ((isinstance(n.func, ast.Attribute) and n.func.attr in names) or
                                                (isinstance(n.func, ast.Name) and n.func.id in names)) for n in ast.walk(m.node))
    pi = inp.lookup('prepare_input_for_recording')
    called_by_prepare = {n.func.attr for n in ast.walk(pi.node) if isinstance(n, ast.Call) and self_attr(n.func)}
    icpt = one(lambda m: m.name in called_by_prepare and m.cls is fi, 'interception routine')
    above = one(lambda m: any(isinstance(n, ast.Compare) and any(self_attr(x) == 'intercepted_size_limit' for x in ast.walk(n)) and
                              not all(isinstance(o, (ast.Is, ast.IsNot)) for o in n.ops) for n in ast.walk(m.node)), 'size predicate')
    # serialiser: builds the envelope (a dict with the content key) from a content it is given - with or without the codec call
    sers = [m for m in fi.methods.values() if m.name != '__init__' and has_call(m, 'b64encode')]
    if not sers:
        sers = [m for m in fi.methods.values() if m.name != '__init__' and
                any(isinstance(n, ast.Dict) and any(isinstance(k, ast.Constant) and k.value == 'file_content' for k in n.keys) for n in ast.walk(m.node)) and
                not any(isinstance(n, ast.Attribute) and n.attr == 'ABOVE_LIMIT_CONTENT' for n in ast.walk(m.node))]
    if len(sers) != 1:
        raise AnalysisError('anchor-lost role=serialize (candidates %s)' % [m.name for m in sers])
    ser = sers[0]
    des = one(lambda m: has_call(m, 'b64decode'), 'deserialize')
    ph = one(lambda m: m is not des and any(isinstance(n, ast.Attribute) and n.attr == 'ABOVE_LIMIT_CONTENT' for n in ast.walk(m.node)) and
             any(isinstance(n, ast.Return) and isinstance(n.value, ast.Dict) for n in ast.walk(m.node)), 'placeholder result')
    gps = [m for m in fi.methods.values() if m.name != '__init__' and any(self_attr(n) == 'file_path_arg_name' for n in ast.walk(m.node))]
    # (a copy of the lookup that a handler subclass keeps for itself - written in place there and taken out by the normaliser - is judged like the shared one)
    gps += [m for c_ in (inp, outp) for m in c_.methods.values() if m.cls is c_ and m.name.endswith('__outlined') and
            any(self_attr(n) == 'file_path_arg_name' for n in ast.walk(m.node))]
    if not gps:
        raise AnalysisError('anchor-lost role=path function (candidates [])')
    gp = gps[0]
    calcs = [m for m in fi.methods.values() if has_call(m, 'getenv') or any(isinstance(n, ast.Attribute) and norm(n) == 'os.environ' for n in ast.walk(m.node))]
    if len(calcs) != 1:
        raise AnalysisError('anchor-lost role=limit source (candidates %s)' % [m.name for m in calcs])
    calc = calcs[0]
    for nm, m in (('_intercept_file', icpt), ('size predicate', above), ('serialize', ser), ('deserialize', des), ('placeholder', ph), ('path', gp), ('limit', calc)):
        if m is None:
            raise AnalysisError('anchor-lost method role=%s' % nm)
    excm = ctx.excm(['playback.interception.files.file_interception'])
    pol = RepoPolicy(repo, excm)

    # ---------------- C20.a dominance
    dom = small.analyse(repo, excm, icpt, policy=pol, self_cls=fi, domain=FileDomain, size_test=above)
    ca.evaluations += dom.visited_pairs
    bad = [(n, t, s) for n, t, s in dom.opens if s.extra.get('size_checked') != 'within']
    ca.instance('%d open/read states of the intercepted file, all after the size test answered "within"' % len(dom.opens), icpt.qualname,
                not bad and len(dom.opens) > 0)
    if bad or not dom.opens:
        n, t, s = bad[0] if bad else (None, None, None)
        res.add(Finding('C20', 'C20.a', 'R-DOM', icpt.file, icpt.qualname, n.line if n else icpt.node.lineno, ast.unparse(n.ast) if n else 'file read',
                        'the intercepted file is opened / read on a path where the size test has not answered "within the limit" (%s): files above '
                        'the limit would be read into the recording' % (s.extra.get('size_checked') if s else 'no read found'),
                        witness=dom.path_to(n, s) if n is not None and (n.id, s.key()) in dom.pred else None))
    # the "above" answer returns the placeholder
    okp = True
    seen_above = 0
    for n, s in dom.exits:
        if n.info['exit'] == 'return' and s.extra.get('size_checked') == 'above':
            seen_above += 1
            rv = dom.rv(s)
            if rv is None or not (isinstance(rv.name, tuple) and 'Dict@' in str(rv.name)):
                pass
    # every return of the routine taken with the answer "above" hands back the placeholder envelope, none of them read the file
    above_exits = [(n, s) for n, s in dom.exits if n.info['exit'] == 'return' and s.extra.get('size_checked') == 'above']
    read_above = [x for x in dom.opens if x[2].extra.get('size_checked') == 'above']
    ph_call = any(isinstance(x, ast.Call) and self_attr(x.func) == ph.name for x in ast.walk(icpt.node)) or ph is icpt
    ret_ph = bool(above_exits) and not read_above and ph_call
    ca.instance('"above the limit" returns the placeholder result (%d states)' % seen_above, icpt.qualname, ret_ph and seen_above > 0)
    if not (ret_ph and seen_above > 0):
        res.add(Finding('C20', 'C20.a', 'R-DOM', icpt.file, icpt.qualname, icpt.node.lineno, 'above-limit branch',
                        'a file above the limit is not answered with the documented placeholder result'))
    # ... and only then: a file within the limit that cannot be read is an error of the capture (the recording is discarded), never
    # silently "a file above the limit" - replay would hand the placeholder text to code that recorded real bytes
    from .common import guards_of as _guards_of20
    ph_sites = _guards_of20(icpt.node, lambda x: (isinstance(x, ast.Call) and self_attr(x.func) == ph.name) if ph is not icpt else
                            (isinstance(x, ast.Return) and isinstance(x.value, ast.Dict)))
    in_handler = [(s_, c_) for s_, c_ in ph_sites if any(isinstance(t_, ast.Name) and t_.id.startswith('<handler') for t_, _p in c_)]
    ca.instance('the placeholder is produced for the size verdict only (not as the answer to a failed read)', icpt.qualname, bool(ph_sites) and not in_handler)
    for s_, c_ in in_handler[:1]:
        res.add(Finding('C20', 'C20.a', 'R-DOM', icpt.file, icpt.qualname, s_.lineno, norm(s_)[:80],
                        'a failure while reading a file within the limit is answered with the above-limit placeholder: the recording is kept with the '
                        'placeholder text in place of the bytes, and replay restores that text as the file content'))
    # strictness, units, sentinel inside the predicate
    cmps = [n for n in ast.walk(above.node) if isinstance(n, ast.Compare) and any(self_attr(x) == 'intercepted_size_limit' for x in ast.walk(n))
            and not isinstance(n.ops[0], (ast.Is, ast.IsNot))]
    oks = False
    why = 'no comparison of the size with the limit'
    if cmps:
        c = cmps[0]
        left_limit = self_attr(c.left) == 'intercepted_size_limit'
        op = c.ops[0]
        oks = (not left_limit and isinstance(op, ast.Gt)) or (left_limit and isinstance(op, ast.Lt))
        why = norm(c)
    ca.instance('strict comparison size > limit (a file exactly at the limit is read)', above.qualname, oks, detail=why)
    if not oks:
        res.add(Finding('C20', 'C20.a', 'R-DOM', above.file, above.qualname, cmps[0].lineno if cmps else above.node.lineno, why,
                        'the size test is not the strict `size > limit`: a file exactly at the limit would be dropped'))
    # unit: size operand derived from mb(getsize(path))
    defs = {n.targets[0].id: n.value for n in walk_own(above.node) if isinstance(n, ast.Assign) and isinstance(n.targets[0], ast.Name)}
    unit_ok = False
    if cmps:
        side = cmps[0].comparators[0] if self_attr(cmps[0].left) == 'intercepted_size_limit' else cmps[0].left
        e = defs.get(side.id) if isinstance(side, ast.Name) else side
        mbs = [m for m in fi.methods.values() if any(isinstance(n, ast.BinOp) and isinstance(n.op, ast.Div) and '1024' in norm(n.right) for n in ast.walk(m.node))]
    mb = mbs[0] if len(mbs) == 1 else None
    from ..loader import expand_locals as _xl
    from .. import paths as _paths
    e = _xl(above.node, e) if e is not None else e
    # the compared size written out: through the conversion helper if there is one, or in place
    conv = None
    if mb is not None and isinstance(e, ast.Call) and self_attr(e.func) == mb.name and e.args:
        try:
            tbl = _paths.return_paths(mb.node)
        except _paths.Unsupported as ex:
            raise AnalysisError('size conversion has a shape the path table does not model: %s' % ex)
        mp = mb.params[-1] if mb.params else None
        if len(tbl) == 1 and tbl[0].value is not None and not tbl[0].conds:
            import copy as _copy

            class _Sub(ast.NodeTransformer):
                def visit_Name(self_, n):
                    return _copy.deepcopy(e.args[0]) if n.id == mp else n
            conv = _Sub().visit(_copy.deepcopy(tbl[0].value))
        where_conv = mb
    else:
        conv = e
        where_conv = above
    if conv is None:
        raise AnalysisError('anchor-lost role=size operand of the limit test')

    def const_value(x):
        try:
            return eval(compile(ast.Expression(body=x), '<const>', 'eval'), {'__builtins__': {}}, {}) if not any(
                isinstance(y, (ast.Name, ast.Call, ast.Attribute)) for y in ast.walk(x)) else None
        except Exception:
            return None
    src = None
    exact = False
    if isinstance(conv, ast.BinOp) and isinstance(conv.op, ast.Div):
        left = conv.left
        if isinstance(left, ast.Call) and isinstance(left.func, ast.Name) and left.func.id == 'float' and len(left.args) == 1:
            left = left.args[0]
        src = left
        exact = const_value(conv.right) == 1024 * 1024
    # the size measured is that of the content a read would return: getsize / stat follow symbolic links, lstat measures the link itself
    follows = src is not None and ((isinstance(src, ast.Call) and norm(src.func).endswith('getsize')) or
                                   (isinstance(src, ast.Attribute) and src.attr == 'st_size' and isinstance(src.value, ast.Call) and
                                    norm(src.value.func).split('.')[-1] in ('stat', 'fstat')))
    link_size = src is not None and isinstance(src, ast.Attribute) and src.attr == 'st_size' and isinstance(src.value, ast.Call) and \
        norm(src.value.func).split('.')[-1] == 'lstat'
    if link_size:
        res.add(Finding('C20', 'C20.a', 'R-DOM', above.file, above.qualname, src.lineno, norm(src),
                        'the size compared with the limit is `%s`, the size of the directory entry: for a symbolic link that is the length of the link '
                        'text, so a file above the limit reached through a link is read into the recording' % norm(src)))
    ca.instance('byte count converted to MB by an exact division (`%s`)' % norm(conv)[:80], where_conv.qualname, exact)
    if not exact:
        res.add(Finding('C20', 'C20.a', 'R-DOM', where_conv.file, where_conv.qualname, where_conv.node.lineno, 'size conversion',
                        'the size handed to the limit test is `%s`, not the exact quotient of the byte count by 1024*1024: rounding / truncation / '
                        'another unit lets a file slightly above the limit compare as within it (it is then read into the recording)' % norm(conv)[:100]))
    unit_ok = follows or link_size
    ca.instance('the compared size is the size of the content that would be read (os.path.getsize / stat)', above.qualname, unit_ok)
    if not unit_ok:
        res.add(Finding('C20', 'C20.a', 'R-DOM', above.file, above.qualname, above.node.lineno, 'units of the size test',
                        'the compared size `%s` is not the size of the file content (os.path.getsize(path) / os.stat(path).st_size)' % norm(conv)[:100]))
    # sentinel
    bare = []
    for n in ast.walk(above.node):
        tests = []
        if isinstance(n, (ast.If, ast.IfExp, ast.While)):
            tests.append(n.test)
        if isinstance(n, ast.BoolOp):
            tests.extend(n.values)
        if isinstance(n, ast.UnaryOp) and isinstance(n.op, ast.Not):
            tests.append(n.operand)
        for t in tests:
            if self_attr(t) == 'intercepted_size_limit':
                bare.append(n)
    ca.instance('"no limit" tested by identity with None (a limit of 0 is a limit)', above.qualname, not bare)
    for n in bare[:1]:
        res.add(Finding('C20', 'C20.a', 'R-DOM', above.file, above.qualname, n.lineno, norm(n.test) if hasattr(n, 'test') else norm(n),
                        'the limit is tested by truthiness: a limit of 0 (explicit, or a fractional environment value truncated to 0) is treated '
                        'as "no limit" and non-empty files are read into the recording'))

    # ---------------- C20.b binary modes
    opens = []
    for c in (fi, inp, outp, holder):
        for m in c.methods.values():
            for n in ast.walk(m.node):
                if isinstance(n, ast.Call) and norm(n.func) in ('open', 'io.open', 'os.fdopen'):
                    mode = n.args[1].value if len(n.args) > 1 and isinstance(n.args[1], ast.Constant) else None
                    for k in n.keywords:
                        if k.arg == 'mode' and isinstance(k.value, ast.Constant):
                            mode = k.value.value
                    opens.append((m, n, mode))
    for m, n, mode in opens:
        ok = isinstance(mode, str) and 'b' in mode
        cb.instance('%s: %s' % (m.qualname, norm(n)), '%s:%d' % (m.file, n.lineno), ok)
        cb.evaluations += 1
        if not ok:
            res.add(Finding('C20', 'C20.b', 'R-AGREE', m.file, m.qualname, n.lineno, norm(n),
                            'intercepted file content is opened in text mode (%r): newline translation / decoding changes the bytes' % mode))
    # restoring writes the whole file: an existing (longer) file at the replayed path must not keep its tail
    from . import common as _cmw
    for c in (inp, outp, holder):
        for m in c.methods.values():
            for n, why in _cmw.nontruncating_writes(m.node):
                cb.instance('%s: %s truncates' % (m.qualname, norm(n)[:60]), m.qualname, False)
                res.add(Finding('C20', 'C20.b', 'R-AGREE', m.file, m.qualname, n.lineno, norm(n)[:100],
                                'the restored file is opened without truncation (%s): when a longer file already exists at the replayed path the '
                                'restored content is followed by the old file\'s tail' % why))
    # ---------------- C20.c codec
    def codec_calls(fn, names):
        return [n for n in ast.walk(fn.node) if isinstance(n, ast.Call) and ((isinstance(n.func, ast.Attribute) and n.func.attr in names) or
                                                                             (isinstance(n.func, ast.Name) and n.func.id in names))]
    enc = codec_calls(ser, {'b64encode'})
    dec = codec_calls(des, {'b64decode'})
    py2e = [n for n in ast.walk(ser.node) if isinstance(n, ast.Call) and isinstance(n.func, ast.Attribute) and n.func.attr == 'encode' and n.args and
            isinstance(n.args[0], ast.Constant) and n.args[0].value == 'base64']
    py2d = [n for n in ast.walk(des.node) if isinstance(n, ast.Call) and isinstance(n.func, ast.Attribute) and n.func.attr == 'decode' and n.args and
            isinstance(n.args[0], ast.Constant) and n.args[0].value == 'base64']
    okc = len(enc) == 1 and len(dec) == 1 and len(py2e) == len(py2d)
    cc.instance('serialise b64encode / deserialise b64decode under the same interpreter split', fi.name, okc)
    if not okc:
        res.add(Finding('C20', 'C20.c', 'R-AGREE', ser.file, ser.qualname, ser.node.lineno, 'codec pair', 'serialise and deserialise are not the b64encode / b64decode pair'))
    # whole content once: encode applied to the `content` parameter, not inside a loop; the reader reads the file with one read()
    whole = bool(enc) and enc[0].args and isinstance(enc[0].args[0], ast.Name) and enc[0].args[0].id == [q for q in ser.params if q != 'self'][0] and \
        not any(isinstance(l, (ast.For, ast.While, ast.ListComp, ast.GeneratorExp)) for l in ast.walk(ser.node))
    reach = [icpt]
    for m in reach:
        for n in ast.walk(m.node):
            if isinstance(n, ast.Call) and self_attr(n.func) and fi.lookup(n.func.attr) is not None and fi.lookup(n.func.attr) not in reach:
                reach.append(fi.lookup(n.func.attr))
    reads = [n for m in reach for n in ast.walk(m.node) if isinstance(n, ast.Call) and isinstance(n.func, ast.Attribute) and n.func.attr == 'read']
    in_loop = {id(x) for m in reach for l in ast.walk(m.node) if isinstance(l, (ast.For, ast.While, ast.ListComp, ast.GeneratorExp)) for x in ast.walk(l)}
    one_read = len(reads) == 1 and not reads[0].args and id(reads[0]) not in in_loop
    enc_elsewhere = [n for m in fi.methods.values() if m is not ser for n in codec_calls(m, {'b64encode'})]
    cc.instance('the whole content is read once and base64-encoded once (no per-chunk encoding)', icpt.qualname, whole and one_read and not enc_elsewhere)
    if not (whole and one_read and not enc_elsewhere):
        res.add(Finding('C20', 'C20.c', 'R-AGREE', icpt.file, icpt.qualname, (enc_elsewhere[0].lineno if enc_elsewhere else icpt.node.lineno),
                        norm(enc_elsewhere[0]) if enc_elsewhere else 'content encoding',
                        'the file content is not base64-encoded as one unit (chunks encoded separately and concatenated end in padding, and '
                        'b64decode stops at the first padding): content beyond the first chunk is silently lost on restore'))
    # no further value transformation on either side unless it is unconditional and inverted unconditionally on the other side
    def transforms(fn, seeds):
        names = set(seeds)
        out = []
        changed = True
        while changed:
            changed = False
            for n in walk_own(fn.node):
                if isinstance(n, ast.Assign) and isinstance(n.targets[0], ast.Name) and n.targets[0].id not in names and \
                        any(isinstance(x, ast.Name) and x.id in names for x in ast.walk(n.value)):
                    names.add(n.targets[0].id)
                    changed = True
        cond_nodes = {id(x) for c in walk_own(fn.node) if isinstance(c, (ast.If, ast.Try, ast.IfExp, ast.For, ast.While)) for x in ast.walk(c)
                      if not (isinstance(c, ast.If) and 'PY2' in norm(c.test))}
        for n in walk_own(fn.node):
            if isinstance(n, ast.Call) and any(isinstance(a, ast.Name) and a.id in names for a in n.args):
                f = norm(n.func)
                last = f.split('.')[-1]
                if last in ('b64encode', 'b64decode', 'len', 'format', 'bytes', 'str') or f.startswith('_logger') or f.startswith('logging') or \
                        (isinstance(n.func, ast.Attribute) and n.func.attr in ('encode', 'decode') and n.args and isinstance(n.args[0], ast.Constant)):
                    continue
                out.append((n, last, id(n) in cond_nodes))
        return out
    des_seed = [n.targets[0].id for n in walk_own(des.node) if isinstance(n, ast.Assign) and isinstance(n.targets[0], ast.Name) and
                any(isinstance(x, ast.Subscript) for x in ast.walk(n.value))]
    ts, td = transforms(ser, [q for q in ser.params if q != 'self'][:1]), transforms(des, des_seed)
    inv = {'compress': 'decompress', 'decompress': 'compress'}
    sym_ok = sorted(t[1] for t in ts) == sorted(inv.get(t[1], '?') for t in td) and not any(t[2] for t in ts + td)
    cc.instance('no conditional / unpaired value transformation beside base64 (serialise %s, deserialise %s)' % ([t[1] for t in ts], [t[1] for t in td]),
                fi.name, sym_ok)
    cc.evaluations += len(ts) + len(td) + 1
    if not sym_ok:
        bad_t = (ts + td)[0]
        res.add(Finding('C20', 'C20.c', 'R-AGREE', (ser if bad_t in ts else des).file, (ser if bad_t in ts else des).qualname, bad_t[0].lineno, norm(bad_t[0])[:100],
                        'beside base64 the content passes through `%s` %s (serialise: %s, deserialise: %s): the decoder has to guess what the '
                        'encoder did, so some contents are not restored byte-identically' % (
                            bad_t[1], 'under a condition / with a fallback' if bad_t[2] else 'without an unconditional inverse on the other side',
                            [t[1] for t in ts], [t[1] for t in td])))
    # envelope keys
    def dict_keys(fn):
        ks = set()
        for n in ast.walk(fn.node):
            if isinstance(n, ast.Dict):
                ks |= {k.value for k in n.keys if isinstance(k, ast.Constant)}
        return ks
    kw_s, kw_p = dict_keys(ser), dict_keys(ph)
    kr = {n.slice.value for n in ast.walk(des.node) if isinstance(n, ast.Subscript) and isinstance(n.slice, ast.Constant)}
    oke = kw_s == kw_p == kr and len(kr) == 2
    cc.instance('envelope keys written %s / placeholder %s = keys read %s' % (sorted(kw_s), sorted(kw_p), sorted(kr)), fi.name, oke)
    if not oke:
        res.add(Finding('C20', 'C20.c', 'R-AGREE', des.file, des.qualname, des.node.lineno, 'envelope keys', 'serialise writes %s, placeholder %s, deserialise reads %s' % (sorted(kw_s), sorted(kw_p), sorted(kr))))
    # placeholder constant
    const = fi.lookup_const('ABOVE_LIMIT_CONTENT')
    wr = any(isinstance(n, ast.Attribute) and n.attr == 'ABOVE_LIMIT_CONTENT' for n in ast.walk(ph.node))
    rdc = any(isinstance(n, ast.Compare) and any(isinstance(x, ast.Attribute) and x.attr == 'ABOVE_LIMIT_CONTENT' for x in ast.walk(n)) and
              isinstance(n.ops[0], (ast.NotEq, ast.Eq)) for n in ast.walk(des.node))
    text = None
    if isinstance(const, ast.Call) and const.args and isinstance(const.args[0], ast.Constant):
        text = const.args[0].value
    elif isinstance(const, ast.Constant):
        text = const.value if isinstance(const.value, str) else const.value.decode('latin1')
    b64 = set(string.ascii_letters + string.digits + '+/=\n')
    distinct = text is not None and any(ch not in b64 for ch in text)
    # decode only when the content is not the placeholder
    from . import common as _cmg
    from ..loader import expand_locals as _xlg
    dec_sites = _cmg.guards_of(des.node, lambda x: isinstance(x, ast.Call) and isinstance(x.func, ast.Attribute) and x.func.attr == 'b64decode')

    def excludes_placeholder(t, pol):
        t = _xlg(des.node, t)
        for lit, lp in _cmg.split_literals(t, pol):
            if isinstance(lit, ast.Compare) and len(lit.ops) == 1 and any(isinstance(x, ast.Attribute) and x.attr == 'ABOVE_LIMIT_CONTENT' for x in ast.walk(lit)):
                if (isinstance(lit.ops[0], ast.NotEq) and lp) or (isinstance(lit.ops[0], ast.Eq) and not lp):
                    return True
        return False
    def expr_guards(st_):
        # conditions of conditional expressions around the decode call inside its statement
        out = []
        calls_ = [x for x in ast.walk(st_) if isinstance(x, ast.Call) and isinstance(x.func, ast.Attribute) and x.func.attr == 'b64decode']
        for ie in [x for x in ast.walk(st_) if isinstance(x, ast.IfExp)]:
            for c_ in calls_:
                if any(y is c_ for y in ast.walk(ie.body)):
                    out.append((ie.test, True))
                elif any(y is c_ for y in ast.walk(ie.orelse)):
                    out.append((ie.test, False))
        return out
    guard = bool(dec_sites) and all(any(excludes_placeholder(t, pol) for t, pol in list(conds) + expr_guards(st_)) for st_, conds in dec_sites)
    cc.instance('placeholder written and compared through the same constant; %r is outside the base64 alphabet; decode skipped for it' % text, fi.name,
                wr and rdc and distinct and guard)
    cc.evaluations += 4
    if not (wr and rdc and distinct and guard):
        res.add(Finding('C20', 'C20.c', 'R-AGREE', des.file, des.qualname, des.node.lineno, 'placeholder handling',
                        'the placeholder content is not written and recognised through one constant that no base64 text can equal (written=%s compared=%s distinct=%s guarded=%s)' % (wr, rdc, distinct, guard)))

    # ---------------- C20.d paths
    # path table of the path function: the keyword lookup when it gave something, the positional argument otherwise
    from .. import paths as _paths

    def is_kw(e):
        return isinstance(e, ast.Call) and isinstance(e.func, ast.Attribute) and e.func.attr == 'get' and \
            any(self_attr(a) == 'file_path_arg_name' for a in e.args) and len(e.args) == 1

    def is_pos(e):
        return isinstance(e, ast.Subscript) and self_attr(e.slice) == 'file_path_arg_index'
    for gp in gps:
        try:
            table = _paths.return_paths(gp.node)
        except _paths.Unsupported as ex:
            raise AnalysisError('path function has a shape the path table does not model: %s' % ex)
        okg = bool(table)
        kinds = set()
        for p in table:
            cls_ = [_paths.classify(c, pol, is_kw) for c, pol in p.conds]
            cls_ = [c for c in cls_ if c]
            if p.value is not None and is_kw(p.value) and cls_ and all(c in ('truthy', 'notnone') for c in cls_):
                kinds.add('kw')
            elif p.value is not None and is_pos(p.value) and cls_ and all(c in ('falsy', 'none') for c in cls_):
                kinds.add('pos')
            else:
                okg = False
        okg = okg and kinds == {'kw', 'pos'}
        cd.instance('path function: keyword argument first, then position (%s)' % '; '.join(p.text() for p in table), gp.qualname, okg)
        if not okg:
            res.add(Finding('C20', 'C20.d', 'R-PROV', gp.file, gp.qualname, gp.node.lineno, 'path lookup order', 'the intercepted path is not taken from the keyword argument first and the position otherwise'))
    ri = inp.lookup('restore_input_from_recording')
    users = {'record': icpt, 'input restore': ri}
    for nm, m in users.items():
        calls = [n for n in ast.walk(m.node) if isinstance(n, ast.Call) and self_attr(n.func) in [g.name for g in gps]]
        ok = len(calls) == 1 and [norm(a) for a in calls[0].args] == [m.params[-2], m.params[-1]]
        if not ok and len(calls) == 1 and self_attr(calls[0].func).endswith('__outlined'):
            # the lookup written in place and taken out again by the normaliser: the synthetic function's parameters are the caller's own
            # names (in order of first use), so each is handed the caller's variable of the same name
            g_ = (m.cls.lookup(self_attr(calls[0].func)) if m.cls is not None else None) or [g for g in gps if g.name == self_attr(calls[0].func)][0]
            ok = [norm(a) for a in calls[0].args] == [p_ for p_ in g_.params if p_ != 'self'] and \
                set(norm(a) for a in calls[0].args) == {m.params[-2], m.params[-1]}
        cd.instance('%s takes the path from %s(args, kwargs) of the current call' % (nm, '/'.join(g.name for g in gps)), m.qualname, ok)
        if not ok:
            res.add(Finding('C20', 'C20.d', 'R-PROV', m.file, m.qualname, m.node.lineno, 'path source of %s' % nm, '%s does not obtain the path from the shared path function applied to the current call\'s arguments' % nm))
    # input restore writes on every path
    dr = small.analyse(repo, excm, ri, policy=pol, self_cls=inp, domain=small.SmallDomain, count=lambda l: l.startswith('method:write'))
    cd.evaluations += dr.visited_pairs
    badw = [(n, s) for n, s in dr.exits if n.info['exit'] == 'return' and dr.n(s, 'method:write') != 1]
    w_arg = [n for n in ast.walk(ri.node) if isinstance(n, ast.Call) and isinstance(n.func, ast.Attribute) and n.func.attr == 'write']
    cd.instance('input restore writes the recorded bytes exactly once on every returning path', ri.qualname, not badw and len(w_arg) == 1)
    if badw or len(w_arg) != 1:
        n, s = badw[0] if badw else (None, None)
        res.add(Finding('C20', 'C20.d', 'R-PROV', ri.file, ri.qualname, ri.node.lineno, 'input restore write',
                        'input restore can return without writing the recorded bytes at the path named by the replayed call (stale content stays there)',
                        witness=dr.path_to(n, s) if n is not None else None))
    ro = outp.lookup('restore_output_from_recording')
    hc = [n for n in ast.walk(ro.node) if isinstance(n, ast.Call) and isinstance(n.func, ast.Name) and n.func.id == holder.name]
    okh = len(hc) == 1 and len(hc[0].args) == 2
    if okh:
        # what the deserialiser hands back, by position / by field name: the recorded path (read from the envelope) and the content
        def role_of(e):
            return 'path' if any(isinstance(x, ast.Subscript) and isinstance(x.slice, ast.Constant) and x.slice.value == 'file_path' for x in ast.walk(e)) else 'content'
        by_pos, by_field = {}, {}
        for r_ in [n for n in walk_own(des.node) if isinstance(n, ast.Return) and n.value is not None]:
            v_ = r_.value
            if isinstance(v_, ast.Tuple):
                by_pos = {i: role_of(e) for i, e in enumerate(v_.elts)}
            elif isinstance(v_, ast.Call) and isinstance(v_.func, ast.Name):
                by_field = {k.arg: role_of(k.value) for k in v_.keywords if k.arg}
                by_pos = {i: role_of(e) for i, e in enumerate(v_.args)}
                # a named tuple is still a tuple: positions follow the field list of its definition
                ntdef = des.module.globals.get(v_.func.id)
                if isinstance(ntdef, ast.Call) and norm(ntdef.func).split('.')[-1] == 'namedtuple' and len(ntdef.args) == 2:
                    f_ = ntdef.args[1]
                    fields = [e.value for e in f_.elts] if isinstance(f_, (ast.List, ast.Tuple)) else f_.value.replace(',', ' ').split() if isinstance(f_, ast.Constant) else []
                    for i, fld in enumerate(fields):
                        if fld in by_field:
                            by_pos[i] = by_field[fld]
                        elif i in by_pos:
                            by_field[fld] = by_pos[i]
        local_role = {}
        holders = {}
        for n in walk_own(ro.node):
            if isinstance(n, ast.Assign) and isinstance(n.value, ast.Call) and self_attr(n.value.func) == des.name:
                t0 = n.targets[0]
                if isinstance(t0, ast.Tuple):
                    for i, x in enumerate(t0.elts):
                        if isinstance(x, ast.Name):
                            local_role[x.id] = by_pos.get(i)
                elif isinstance(t0, ast.Name):
                    holders[t0.id] = True

        def arg_role(a):
            if isinstance(a, ast.Name):
                return local_role.get(a.id)
            if isinstance(a, ast.Attribute) and isinstance(a.value, ast.Name) and a.value.id in holders:
                return by_field.get(a.attr)
            if isinstance(a, ast.Subscript) and isinstance(a.value, ast.Name) and a.value.id in holders and isinstance(a.slice, ast.Constant):
                return by_pos.get(a.slice.value)
            return None
        okh = [arg_role(a) for a in hc[0].args] == ['content', 'path']
    cd.instance('output restore: holder built from (content, recorded path)', ro.qualname, okh)
    if not okh:
        res.add(Finding('C20', 'C20.d', 'R-PROV', ro.file, ro.qualname, ro.node.lineno, 'output holder', 'the output holder is not built from the deserialised (content, path) pair in that order'))

    # ---------------- handlers keep no per-call state on the instance (one handler serves concurrent and repeated calls)
    cs = res.clause('C20.f', 'R-PROV', 'file handlers keep no per-call state on the instance', floor=3)
    for c in (fi, inp, outp):
        writes = []
        for m in c.methods.values():
            if m.name == '__init__':
                continue
            for n in ast.walk(m.node):
                if isinstance(n, (ast.Assign, ast.AugAssign)):
                    for t in (n.targets if isinstance(n, ast.Assign) else [n.target]):
                        base = t
                        while isinstance(base, ast.Subscript):
                            base = base.value
                        if self_attr(base):
                            writes.append((m, n))
                if isinstance(n, ast.Call) and isinstance(n.func, ast.Attribute) and n.func.attr in ('setdefault', 'append', 'update', 'add') and self_attr(n.func.value):
                    writes.append((m, n))
        cs.instance('%s: no method other than __init__ stores into the handler' % c.name, c.name, not writes)
        cs.evaluations += 1
        for m, n in writes[:1]:
            res.add(Finding('C20', 'C20.f', 'R-PROV', m.file, m.qualname, n.lineno, norm(n)[:120],
                            'the handler keeps per-call data on the instance (%s): two interceptions that overlap (threads) or repeat (same path, other '
                            'bytes) read each other\'s path / content' % norm(n)[:80]))

    # ---------------- C20.e limit source
    # path table: the parameter itself exactly when it is not None; otherwise a value read from the environment with a default
    def is_p(e):
        return isinstance(e, ast.Name) and e.id == pname

    def from_env(e):
        return any(isinstance(n, ast.Call) and norm(n.func) in ('os.getenv', 'os.environ.get') and len(n.args) == 2 for n in ast.walk(e)) and \
            not any(is_p(n) for n in ast.walk(e))
    try:
        # a separate function returning the limit, or the method that stores it (then the table is over the stored value)
        stores = [n for n in walk_own(calc.node) if isinstance(n, ast.Assign) and len(n.targets) == 1 and
                  self_attr(n.targets[0]) == 'intercepted_size_limit']
        table = _paths.value_paths(calc.node, stores[0]) if stores else _paths.return_paths(calc.node)
    except _paths.Unsupported as ex:
        raise AnalysisError('limit source has a shape the path table does not model: %s' % ex)
    cands = [q for q in calc.params if any(isinstance(p.value, ast.Name) and p.value.id == q for p in table)]
    pname = cands[0] if len(cands) == 1 else (calc.params[0] if calc.params and not stores else None)
    oke = bool(table) and pname is not None
    seen_kinds = set()
    for p in table:
        cls_ = [c for c in (_paths.classify(c, pol, is_p) for c, pol in p.conds) if c]
        if p.value is not None and is_p(p.value) and cls_ and all(c == 'notnone' for c in cls_):
            seen_kinds.add('explicit')
        elif p.value is not None and from_env(p.value) and cls_ and all(c == 'none' for c in cls_):
            seen_kinds.add('env')
        else:
            oke = False
    oke = oke and seen_kinds == {'explicit', 'env'}
    env = True
    ce.instance('explicit limit if not None, else environment variable with default (%s)' % '; '.join(p.text() for p in table), calc.qualname, oke and env)
    ce.evaluations += 1
    if not (oke and env):
        res.add(Finding('C20', 'C20.e', 'R-DECISION', calc.file, calc.qualname, calc.node.lineno, 'limit source',
                        'the limit is not "explicit value if not None, else environment variable, else default"'))
    # ---- C20.g an explicit limit reaches the limit option: constructors of the handlers keep the base parameter order
    from . import common as _cm20
    _cm20.ctor_prefix_clause(ctx, res, 'C20', 'C20.g', fi.name, floor=2)
    from . import common as _r7
    _r7.import_clauses(ctx, res, 'C02', ['C02.k'], 'C20', 'C20.h', 'R-SIBLING', 'public decorators hand the data handler to the shared implementation', floor=2)
    return res
