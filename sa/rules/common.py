"""Rule helpers shared by several properties (each finding is attributed to the property that calls the helper)."""
import ast

from ..report import Finding
from ..loader import walk_own, norm, AnalysisError, expand_locals


def self_attr(e):
    if isinstance(e, ast.Attribute) and isinstance(e.value, ast.Name) and e.value.id == 'self':
        return e.attr
    return None


# ---------------------------------------------------------------------------------------------------------------------
# configuration reaches its use unchanged
# ---------------------------------------------------------------------------------------------------------------------
def _numeric_const(e, cls):
    if isinstance(e, ast.Constant):
        return isinstance(e.value, (int, float, bool)) and e.value is not None
    if isinstance(e, ast.BinOp):
        return _numeric_const(e.left, cls) and _numeric_const(e.right, cls)
    if isinstance(e, (ast.Name, ast.Attribute)) and cls is not None:
        c = cls.lookup_const(norm(e).split('.')[-1])
        return c is not None and _numeric_const(c, None)
    return False


def _reinterpretation(expr, p, other_params, default, cls=None):
    """why `self.f = expr` re-interprets constructor parameter p (None if it does not): the forms below change the
    meaning of a legal configuration value; casts, copies and wrapping in an object do not"""
    names = {x.id for x in ast.walk(expr) if isinstance(x, ast.Name)}
    if p not in names:
        return None
    if isinstance(expr, ast.Name):
        return None
    numeric_default = isinstance(default, ast.Constant) and isinstance(default.value, (int, float, bool)) and default.value is not None
    # (3) order- / multiplicity-losing conversion of a sequence option
    for c in ast.walk(expr):
        if isinstance(c, ast.Call) and isinstance(c.func, ast.Name) and c.func.id in ('set', 'frozenset') and \
                any(isinstance(x, ast.Name) and x.id == p for a in c.args for x in ast.walk(a)):
            return '`%s` passes the option through a set: order (and duplicates) of the given sequence are lost, iteration order depends on hashing' % norm(expr)
    # (1) truthiness default on a numeric / boolean option: 0 / False are replaced
    if isinstance(expr, ast.BoolOp) and isinstance(expr.op, ast.Or) and isinstance(expr.values[0], ast.Name) and expr.values[0].id == p:
        alt = expr.values[1]
        if _numeric_const(alt, cls) or (numeric_default and isinstance(alt, ast.Constant)):
            return '`%s` replaces every falsy value (0, False) of the option by a default' % norm(expr)
        return None
    # (2) value-dependent re-scaling / re-reading: a conditional whose test inspects the option's value
    if isinstance(expr, ast.IfExp):
        t = expr.test
        cmp_on_value = any(isinstance(c, ast.Compare) and any(isinstance(x, ast.Name) and x.id == p for x in ast.walk(c)) and
                           not all(isinstance(o, (ast.Is, ast.IsNot)) for o in c.ops) for c in ast.walk(t))
        arith = any(isinstance(b, ast.BinOp) and any(isinstance(x, ast.Name) and x.id == p for x in ast.walk(b)) for b in ast.walk(expr))
        if cmp_on_value and arith and numeric_default:
            return '`%s` re-scales the option depending on its own value' % norm(expr)
        return None
    # (3) order- / multiplicity-losing conversion of a sequence option
    for c in ast.walk(expr):
        if isinstance(c, ast.Call) and isinstance(c.func, ast.Name) and c.func.id in ('set', 'frozenset') and \
                any(isinstance(x, ast.Name) and x.id == p for a in c.args for x in ast.walk(a)):
            return '`%s` passes the option through a set: order (and duplicates) of the given sequence are lost, iteration order depends on hashing' % norm(expr)
    # (4) a boolean option combined with another option
    if isinstance(expr, ast.BoolOp) and isinstance(expr.op, ast.And) and (names & other_params):
        if isinstance(default, ast.Constant) and isinstance(default.value, bool):
            return '`%s` makes the option depend on another option' % norm(expr)
    if isinstance(expr, ast.UnaryOp) and isinstance(expr.op, ast.Not):
        return '`%s` inverts the option' % norm(expr)
    return None


def ctor_params_clause(ctx, res, clause, prop, cid, cls_name, params=None):
    """every constructor option of cls_name (or the listed ones) is stored as given"""
    cls = ctx.repo.find_class(cls_name)
    if cls is None:
        raise AnalysisError('anchor-lost class=%s' % cls_name)
    init = cls.lookup('__init__')
    if init is None:
        raise AnalysisError('anchor-lost constructor of %s' % cls_name)
    all_params = [p for p in init.params if p != 'self']
    checked = 0
    for p in all_params:
        if params is not None and p not in params:
            continue
        default = init.param_default(p)
        stores = [n for n in walk_own(init.node) if isinstance(n, ast.Assign) and any(self_attr(t) for t in n.targets) and
                  any(isinstance(x, ast.Name) and x.id == p for x in ast.walk(expand_locals(init.node, n.value)))]
        for st in stores:
            why = _reinterpretation(expand_locals(init.node, st.value), p, set(all_params) - {p}, default, cls)
            checked += 1
            clause.instance('%s(%s): stored as given in `%s`' % (cls_name, p, norm(st)[:80]), init.qualname, why is None)
            clause.evaluations += 1
            if why is not None:
                res.add(Finding(prop, cid, 'R-PROV', init.file, init.qualname, st.lineno, 'option %s of %s' % (p, cls_name),
                                'the constructor does not keep the option `%s` as the caller gave it: %s' % (p, why)))
    if params is not None:
        missing = [p for p in params if p not in all_params]
        if missing:
            raise AnalysisError('anchor-lost constructor options %s of %s' % (missing, cls_name))
    return checked


# ---------------------------------------------------------------------------------------------------------------------
# readers do not keep state
# ---------------------------------------------------------------------------------------------------------------------
MUTATORS = {'append', 'extend', 'insert', 'add', 'update', 'setdefault', 'pop', 'popitem', 'clear', 'remove', 'discard', 'appendleft',
            'move_to_end'}


def instance_writes(fn_node):
    """constructs of fn_node that change the state of `self`: attribute stores, subscript stores / deletes on a field,
    mutator calls on a field"""
    out = []
    for n in walk_own(fn_node):
        targets = []
        if isinstance(n, ast.Assign):
            targets = n.targets
        elif isinstance(n, (ast.AugAssign, ast.AnnAssign)):
            targets = [n.target]
        elif isinstance(n, ast.Delete):
            targets = n.targets
        for t in targets:
            for x in (t.elts if isinstance(t, (ast.Tuple, ast.List)) else [t]):
                if self_attr(x):
                    out.append((n, 'self.%s is assigned' % self_attr(x)))
                elif isinstance(x, ast.Subscript) and self_attr(x.value):
                    out.append((n, 'an entry of self.%s is written' % self_attr(x.value)))
                elif isinstance(x, ast.Attribute) and self_attr(x.value):
                    out.append((n, 'self.%s .%s is assigned (an attribute of the object that field refers to)' % (self_attr(x.value), x.attr)))
        if isinstance(n, ast.Call) and isinstance(n.func, ast.Attribute) and n.func.attr in MUTATORS and self_attr(n.func.value):
            out.append((n, 'self.%s.%s(...) mutates a field' % (self_attr(n.func.value), n.func.attr)))
    return out


def stateless_methods_clause(res, clause, prop, cid, cls, method_names, what, allowed_fields=()):
    """the listed methods of cls (and the private helpers of cls they call) do not write instance state"""
    todo = [cls.lookup(m) for m in method_names if cls.lookup(m) is not None]
    seen = []
    while todo:
        m = todo.pop()
        if m in seen or m is None:
            continue
        seen.append(m)
        for n in ast.walk(m.node):
            if isinstance(n, ast.Call) and self_attr(n.func) and cls.lookup(n.func.attr) is not None and not n.func.attr.startswith('__'):
                todo.append(cls.lookup(n.func.attr))
    for m in seen:
        ws = [(n, w) for n, w in instance_writes(m.node) if not any(('self.%s' % f) in w for f in allowed_fields)]
        clause.instance('%s keeps no state (%s)' % (m.qualname, what), m.qualname, not ws)
        clause.evaluations += 1
        for n, w in ws[:2]:
            res.add(Finding(prop, cid, 'R-PROV', m.file, m.qualname, n.lineno, norm(n)[:120],
                            '%s: %s in %s; what a later call returns then depends on earlier calls on the same object instead of '
                            'on the store alone' % (what, w, m.qualname)))
    return len(seen)


# ---------------------------------------------------------------------------------------------------------------------
# a call is guarded only by the allowed conditions
# ---------------------------------------------------------------------------------------------------------------------
def guards_of(fn_node, target_pred):
    """for every statement of fn_node containing a node accepted by target_pred: the list of (test, polarity) of the
    enclosing if / while statements and the tests of earlier `if ...: return / continue / raise` guards in the
    enclosing blocks (lexical guards)"""
    results = []

    def visit(stmts, conds):
        local = list(conds)
        for s in stmts:
            if isinstance(s, (ast.FunctionDef, ast.AsyncFunctionDef, ast.ClassDef)):
                continue        # nested definitions are functions of their own
            hit = [x for x in ast.walk(s) if target_pred(x)] if not isinstance(s, (ast.If, ast.For, ast.While, ast.Try, ast.With)) else []
            if hit:
                results.append((s, list(local)))
            if isinstance(s, ast.If):
                if any(target_pred(x) for x in ast.walk(s.test)):
                    results.append((s, list(local)))
                visit(s.body, local + [(s.test, True)])
                visit(s.orelse, local + [(s.test, False)])
                # a branch that always leaves guards what follows
                if _leaves(s.body) and not _leaves(s.orelse):
                    local.append((s.test, False))
                elif _leaves(s.orelse) and s.orelse and not _leaves(s.body):
                    local.append((s.test, True))
            elif isinstance(s, (ast.For, ast.While)):
                if isinstance(s, ast.While):
                    visit(s.body, local + [(s.test, True)])
                else:
                    if any(target_pred(x) for x in ast.walk(s.iter)):
                        results.append((s, list(local)))
                    visit(s.body, local)
                visit(s.orelse, local)
            elif isinstance(s, ast.Try):
                visit(s.body, local)
                for h in s.handlers:
                    visit(h.body, local + [(ast.Name(id='<handler %s>' % (norm(h.type) if h.type is not None else ''), ctx=ast.Load()), True)])
                visit(s.orelse, local)
                visit(s.finalbody, local)
            elif isinstance(s, ast.With):
                if any(target_pred(x) for it in s.items for x in ast.walk(it.context_expr)):
                    results.append((s, list(local)))
                visit(s.body, local)
    visit(fn_node.body, [])
    return results


def _leaves(stmts):
    if not stmts:
        return False
    s = stmts[-1]
    if isinstance(s, (ast.Return, ast.Raise, ast.Continue, ast.Break)):
        return True
    if isinstance(s, ast.If):
        return _leaves(s.body) and _leaves(s.orelse)
    return False


def split_literals(test, polarity):
    """(literal, polarity) list implied by a guard: conjunctions for a true test, disjunction members for a false one"""
    if isinstance(test, ast.UnaryOp) and isinstance(test.op, ast.Not):
        return split_literals(test.operand, not polarity)
    if isinstance(test, ast.BoolOp):
        if (isinstance(test.op, ast.And) and polarity) or (isinstance(test.op, ast.Or) and not polarity):
            out = []
            for v in test.values:
                out.extend(split_literals(v, polarity))
            return out
        return [(test, polarity)]        # a disjunction that holds: kept whole
    return [(test, polarity)]


# ---------------------------------------------------------------------------------------------------------------------
# values carried from one loop iteration into the next
# ---------------------------------------------------------------------------------------------------------------------
def loop_carried(fn_node):
    """(loop, name) pairs: a local that the loop body assigns only under a condition (in a handler / under an if), reads
    elsewhere in the body, and that was initialised before the loop - its value in one iteration can be the one a previous
    iteration left behind.  Accumulators (augmented assignments) and names re-initialised unconditionally at the top level of
    the body are not reported."""
    out = []
    for lp in [n for n in walk_own(fn_node) if isinstance(n, (ast.For, ast.While))]:
        top = set()
        for s in lp.body:
            if isinstance(s, ast.Assign):
                for t in s.targets:
                    for x in ast.walk(t):
                        if isinstance(x, ast.Name):
                            top.add(x.id)
        if isinstance(lp, ast.For):
            top |= {x.id for x in ast.walk(lp.target) if isinstance(x, ast.Name)}
        aug = {n.target.id for s in lp.body for n in ast.walk(s) if isinstance(n, ast.AugAssign) and isinstance(n.target, ast.Name)}
        cond = set()
        for s in lp.body:
            for c in ast.walk(s):
                blocks = []
                if isinstance(c, ast.If):
                    blocks = [c.body, c.orelse]
                elif isinstance(c, ast.Try):
                    blocks = [h.body for h in c.handlers]
                for b in blocks:
                    for st in b:
                        for x in ast.walk(st):
                            if isinstance(x, ast.Name) and isinstance(x.ctx, ast.Store):
                                cond.add(x.id)
                            elif isinstance(x, ast.ExceptHandler) and x.name:
                                pass
        reads = {x.id for s in lp.body for x in ast.walk(s) if isinstance(x, ast.Name) and isinstance(x.ctx, ast.Load)}
        before = set()
        for n in walk_own(fn_node):
            if isinstance(n, ast.Name) and isinstance(n.ctx, ast.Store) and getattr(n, 'lineno', 0) < lp.lineno:
                before.add(n.id)
        for name in sorted((cond - top - aug) & reads & before):
            out.append((lp, name))
    return out


def ctor_calls_agree_clause(ctx, res, clause, prop, cid, cls_name):
    """wherever the package constructs cls_name from values that carry the name of one of its options (copying, forwarding),
    each value goes to the option of that name"""
    repo = ctx.repo
    cls = repo.find_class(cls_name)
    init = cls.lookup('__init__') if cls is not None else None
    if init is None:
        raise AnalysisError('anchor-lost constructor of %s' % cls_name)
    params = [p for p in init.params if p != 'self']
    n_calls = 0
    for f in repo.all_functions():
        for n in ast.walk(f.node):
            if not (isinstance(n, ast.Call) and norm(n.func).split('.')[-1] == cls_name):
                continue
            n_calls += 1
            pairs = [(params[i], a) for i, a in enumerate(n.args) if i < len(params)] + [(k.arg, k.value) for k in n.keywords if k.arg]
            for p, a in pairs:
                nm = a.attr if isinstance(a, ast.Attribute) else (a.id if isinstance(a, ast.Name) else None)
                if nm is not None and nm.lstrip('_') in params and nm.lstrip('_') != p:
                    clause.instance('%s(...) in %s: `%s` goes to option `%s`' % (cls_name, f.qualname, norm(a), p), f.qualname, False)
                    res.add(Finding(prop, cid, 'R-PROV', f.file, f.qualname, n.lineno, norm(n)[:120],
                                    '%s builds a %s in which `%s` is passed as the option `%s`: the two options are swapped, so the object does not '
                                    'carry the configuration it was built from' % (f.qualname, cls_name, norm(a), p)))
    clause.instance('%d construction(s) of %s in the package pass same-named values to same-named options' % (n_calls, cls_name), cls_name, True)
    clause.evaluations += n_calls


# ---------------------------------------------------------------------------------------------------------------------
# a file that is written whole is opened truncating
# ---------------------------------------------------------------------------------------------------------------------
def nontruncating_writes(fn_node):
    """write-opens of fn_node that keep the old content of an existing file: os.open for writing without O_TRUNC (or O_EXCL),
    open(..., 'r+' / 'a...')"""
    out = []
    for n in ast.walk(fn_node):
        if not isinstance(n, ast.Call):
            continue
        f = norm(n.func)
        if f in ('os.open',) and len(n.args) >= 2:
            flags = norm(n.args[1])
            if ('O_WRONLY' in flags or 'O_RDWR' in flags) and 'O_TRUNC' not in flags and 'O_EXCL' not in flags:
                out.append((n, 'os.open(..., %s) opens for writing without O_TRUNC' % flags))
        if f in ('open', 'io.open', 'os.fdopen', 'codecs.open'):
            mode = n.args[1].value if len(n.args) > 1 and isinstance(n.args[1], ast.Constant) else None
            for k in n.keywords:
                if k.arg == 'mode' and isinstance(k.value, ast.Constant):
                    mode = k.value.value
            if isinstance(mode, str) and (mode.startswith('a') or mode.startswith('r+')) and f != 'os.fdopen':
                out.append((n, 'mode %r keeps the existing content' % mode))
    return out


# ---------------------------------------------------------------------------------------------------------------------
# obligations shared between properties
# ---------------------------------------------------------------------------------------------------------------------
def import_clauses(ctx, res, src_prop, src_clauses, prop, cid, kind, title, floor=1):
    """some obligations are necessary conditions of more than one property (the rule is written once, under the property it was
    first needed for): run that property's rules (cached per process) and restate the selected clauses - instances and findings -
    under this property, so that a change breaking this property is reported by this property's own check"""
    import importlib
    from ..report import Result, LAST_RESULT
    if getattr(ctx, '_import_depth', 0) > 0:
        # inside a run that is itself only consulted for some of its clauses: its own restatements are not needed (and two
        # properties may restate clauses of each other)
        return res.clause(cid, kind, title + ' (not restated inside an imported run)', floor=0)
    mod = importlib.import_module('sa.rules.%s' % src_prop.lower())
    keep = LAST_RESULT[0]

    def run_src():
        ctx._import_depth = getattr(ctx, '_import_depth', 0) + 1
        try:
            return mod.run(ctx)
        except Exception:
            part = LAST_RESULT[0]
            if part is not None and part.prop == src_prop and part.findings:
                return part       # a violation was established before the source run lost an anchor: restate what it found
            raise                 # nothing found and an anchor lost: the importing check is analysis-broken as well, never silently green
        finally:
            ctx._import_depth -= 1
    try:
        src = ctx.get(('imported-run', src_prop), run_src)
    finally:
        LAST_RESULT[0] = keep
    c = res.clause(cid, kind, title + ' (shared with %s)' % ', '.join(src_clauses), floor=floor)
    for sc in src.clauses:
        if sc.id in src_clauses:
            for i in sc.instances:
                c.instance(i['construct'], i['where'], i['ok'], detail=i.get('detail'))
            c.evaluations += sc.evaluations
    from ..report import load_known, match_known
    known = load_known()
    for f in src.findings:
        if f.clause in src_clauses:
            if match_known(f, known) is not None:
                continue          # a recorded known finding is reported (as KNOWN-FINDING) by the property it is listed under
            res.add(Finding(prop, cid, f.kind, f.file, f.func, f.line, f.construct, f.message, witness=f.witness, entry=f.entry, exit=f.exit))
    return c


# ---------------------------------------------------------------------------------------------------------------------
# one-shot iterators captured by a closure that runs many times
# ---------------------------------------------------------------------------------------------------------------------
ONE_SHOT = {'filter', 'map', 'zip', 'iter', 'reversed', 'enumerate', 'chain', 'islice', 'ifilter', 'imap', 'izip'}


def one_shot_captures(outer_node, inner_node):
    """locals of outer_node bound to a lazily consumed iterator (filter / map / zip / generator expression ...) that inner_node,
    a closure called any number of times, reads: the first call consumes them, later calls see them empty"""
    out = []
    inner_reads = {x.id for x in ast.walk(inner_node) if isinstance(x, ast.Name) and isinstance(x.ctx, ast.Load)}
    inner_binds = {x.arg for x in ast.walk(inner_node) if isinstance(x, ast.arg)} | \
        {x.id for x in ast.walk(inner_node) if isinstance(x, ast.Name) and isinstance(x.ctx, ast.Store)}
    for n in walk_own(outer_node):
        if isinstance(n, ast.Assign) and len(n.targets) == 1 and isinstance(n.targets[0], ast.Name):
            v = n.value
            leaves = [v]
            if isinstance(v, ast.IfExp):
                leaves = [v.body, v.orelse]
            for lv in leaves:
                lazy = isinstance(lv, ast.GeneratorExp) or (isinstance(lv, ast.Call) and norm(lv.func).split('.')[-1] in ONE_SHOT)
                if lazy and n.targets[0].id in inner_reads and n.targets[0].id not in inner_binds:
                    out.append((n, n.targets[0].id, norm(lv)[:80]))
    return out


def closure_state_writes(outer_node, inner_node):
    """state that a closure keeps between its calls in a variable of its factory: `nonlocal` rebinding, or mutation of a container
    the factory created (append / subscript store / update ...)"""
    out = []
    containers = {}
    for n in walk_own(outer_node):
        if isinstance(n, ast.Assign) and len(n.targets) == 1 and isinstance(n.targets[0], ast.Name):
            v = n.value
            if isinstance(v, (ast.List, ast.Dict, ast.Set)) or (isinstance(v, ast.Call) and isinstance(v.func, ast.Name) and
                                                                   v.func.id in ('list', 'dict', 'set', 'defaultdict', 'OrderedDict', 'Counter', 'deque')):
                containers[n.targets[0].id] = n
    inner_binds = {x.arg for x in ast.walk(inner_node) if isinstance(x, ast.arg)} | \
        {x.id for x in ast.walk(inner_node) if isinstance(x, ast.Name) and isinstance(x.ctx, ast.Store)}
    # what the factory was *given* (its parameters: the decorator's arguments) is shared by all calls of the closure just as well; a local
    # of the closure that may name such an object (`x = given` on some branch) stands for it
    given = {a.arg for a in ast.walk(outer_node.args) if isinstance(a, ast.arg)} - {'self', 'cls'} if hasattr(outer_node, 'args') else set()
    shared = (set(containers) | given) - inner_binds
    alias = {}
    def may_name(v):
        if isinstance(v, ast.Name):
            return [v.id]
        if isinstance(v, ast.IfExp):
            return may_name(v.body) + may_name(v.orelse)
        if isinstance(v, ast.BoolOp):
            return [x for y in v.values for x in may_name(y)]
        return []
    for n in ast.walk(inner_node):
        if isinstance(n, ast.Assign) and len(n.targets) == 1 and isinstance(n.targets[0], ast.Name):
            for nm in may_name(n.value):
                if nm in shared:
                    alias[n.targets[0].id] = nm
    for n in ast.walk(inner_node):
        if isinstance(n, ast.Call) and isinstance(n.func, ast.Attribute) and isinstance(n.func.value, ast.Name) and n.func.attr in MUTATORS and \
                (n.func.value.id in alias or (n.func.value.id in given and n.func.value.id not in inner_binds)):
            nm = alias.get(n.func.value.id, n.func.value.id)
            out.append((n, nm, '%s (the object given as `%s`)' % (norm(n)[:70], nm)))
        if isinstance(n, (ast.Assign, ast.AugAssign)):
            for t in (n.targets if isinstance(n, ast.Assign) else [n.target]):
                if isinstance(t, ast.Subscript) and isinstance(t.value, ast.Name) and (t.value.id in alias or (t.value.id in given and t.value.id not in inner_binds)):
                    nm = alias.get(t.value.id, t.value.id)
                    out.append((n, nm, '%s (the object given as `%s`)' % (norm(n)[:70], nm)))
    for n in ast.walk(inner_node):
        if isinstance(n, ast.Nonlocal):
            for nm in n.names:
                out.append((n, nm, 'nonlocal %s' % nm))
        if isinstance(n, ast.Call) and isinstance(n.func, ast.Attribute) and isinstance(n.func.value, ast.Name) and n.func.value.id in containers and \
                n.func.value.id not in inner_binds and n.func.attr in MUTATORS:
            out.append((n, n.func.value.id, norm(n)[:80]))
        if isinstance(n, (ast.Assign, ast.AugAssign)):
            for t in (n.targets if isinstance(n, ast.Assign) else [n.target]):
                if isinstance(t, ast.Subscript) and isinstance(t.value, ast.Name) and t.value.id in containers and t.value.id not in inner_binds:
                    out.append((n, t.value.id, norm(n)[:80]))
    return out


def expand_through_helpers(cls, fn, expr, depth=3):
    """`expr` of method `fn` with single-assignment locals replaced by their definitions and calls of methods of `cls` whose return-path
    table is one unconditional path replaced by the returned expression (parameters bound to the arguments): the value an expression
    denotes, whether it was computed in place or by a small helper"""
    import copy as _copy
    from ..loader import expand_locals
    from .. import paths as _paths

    def go(fnode, e, d):
        e = expand_locals(fnode, e, depth=4)
        if d <= 0:
            return e

        class R(ast.NodeTransformer):
            def visit_Call(self_, c):
                self_.generic_visit(c)
                nm = self_attr(c.func) if isinstance(c.func, ast.Attribute) else None
                if nm is None and isinstance(c.func, ast.Attribute) and isinstance(c.func.value, ast.Name) and c.func.value.id == cls.name:
                    nm = c.func.attr
                m = cls.lookup(nm) if nm else None
                if m is None or m.is_generator or m.is_property or any(isinstance(a, ast.Starred) for a in c.args) or any(k.arg is None for k in c.keywords):
                    return c
                try:
                    tbl = _paths.return_paths(m.node)
                except _paths.Unsupported:
                    return c
                if len(tbl) != 1 or tbl[0].conds or tbl[0].value is None or tbl[0].raises:
                    return c
                prm = [p for p in m.params if p not in ('self', 'cls')] if not m.is_static else list(m.params)
                bind = dict(zip(prm, c.args))
                bind.update({k.arg: k.value for k in c.keywords})
                if set(prm) - set(bind):
                    return c

                class S(ast.NodeTransformer):
                    def visit_Name(self__, n):
                        return _copy.deepcopy(bind[n.id]) if isinstance(n.ctx, ast.Load) and n.id in bind else n
                return go(m.node, S().visit(_copy.deepcopy(tbl[0].value)), d - 1)
        return R().visit(e)
    return go(fn.node, _copy.deepcopy(expr), depth)


def template_hooks_clause(ctx, res, prop, cid, root_name, floor=1):
    """template-method discipline of one class hierarchy: a method of the root class that works through an overridable hook
    (`self._hook(..)`, the hook being redefined by some subclass) is the only way the hook's redefinitions get to act; a subclass that
    redefines such a method has to go through the same hook (or delegate to the inherited method), otherwise the classes below it -
    which redefine the hook, not the method - are silently bypassed"""
    from ..report import Finding
    from ..loader import walk_own, norm
    repo = ctx.repo
    root = repo.cls(root_name)
    subs = repo.subclasses(root_name)
    c = res.clause(cid, 'R-SIBLING', 'overridden entry points of %s keep dispatching to the overridable hooks' % root_name, floor=floor)

    def hooks_called(fn):
        return {self_attr(n.func) for n in ast.walk(fn.node) if isinstance(n, ast.Call) and self_attr(n.func) and self_attr(n.func).startswith('_')
                and not self_attr(n.func).startswith('__')}
    overridden = {nm for s in subs for nm in s.methods if nm.startswith('_') and not nm.startswith('__')}
    for nm, m in sorted(root.methods.items()):
        hooks = hooks_called(m) & overridden & set(root.methods)
        if not hooks or (nm.startswith('_') and not nm.startswith('__')):
            continue
        for s in subs:
            if nm not in s.methods:
                continue
            o = s.methods[nm]
            delegates = any(isinstance(n, ast.Call) and isinstance(n.func, ast.Attribute) and n.func.attr == nm and
                            ((isinstance(n.func.value, ast.Call) and isinstance(n.func.value.func, ast.Name) and n.func.value.func.id == 'super') or
                             (isinstance(n.func.value, ast.Name) and repo.find_class(n.func.value.id) is not None))
                            for n in ast.walk(o.node))
            raises_only = all(isinstance(x, (ast.Raise, ast.Expr, ast.Pass)) for x in o.node.body)
            below = [d.name for d in subs if d is not s and d.is_subclass_of(s.name) and (hooks & set(d.methods))]
            ok = delegates or hooks <= hooks_called(o) or raises_only or not below
            c.instance('%s.%s goes through %s like %s.%s' % (s.name, nm, sorted(hooks), root.name, nm), o.qualname, ok)
            c.evaluations += 1
            if not ok:
                res.add(Finding(prop, cid, 'R-SIBLING', o.file, o.qualname, o.node.lineno, '%s.%s' % (s.name, nm),
                                '%s.%s no longer goes through %s: %s redefine%s that hook and %s never called for them (what they do on every '
                                'write - forwarding, queueing - silently stops happening)' % (
                                    s.name, nm, '/'.join(sorted(hooks - hooks_called(o))), ', '.join(below), 's' if len(below) == 1 else '',
                                    'it is' if len(hooks) == 1 else 'they are')))
        c.instance('%s.%s dispatches to %s (redefined below)' % (root.name, nm, sorted(hooks)), m.qualname, True)
    return c


def every_return_passes(fn_node, pred):
    """does every path of fn_node that ends normally (return / end of body) evaluate a simple statement accepted by pred(stmt)?
    Loops may run zero times; a handler may be entered before anything of the try body ran. Returns (ok, offending node or None)"""
    bad = []

    def has(s):
        return any(pred(x) for x in ast.walk(s))

    def go(stmts, states):
        for s in stmts:
            if not states:
                return states
            if isinstance(s, (ast.FunctionDef, ast.AsyncFunctionDef, ast.ClassDef)):
                continue
            if isinstance(s, ast.Return):
                if s.value is not None and has(s.value):
                    states = {True}
                if False in states:
                    bad.append(s)
                return set()
            if isinstance(s, ast.Raise):
                return set()
            if isinstance(s, ast.If):
                pre = {True} if has(s.test) else states
                states = go(s.body, set(pre)) | go(s.orelse, set(pre))
            elif isinstance(s, (ast.For, ast.While)):
                states = states | go(s.body, set(states)) | go(s.orelse, set(states))
            elif isinstance(s, ast.With):
                states = go(s.body, {True} if any(has(i.context_expr) for i in s.items) else states)
            elif isinstance(s, ast.Try):
                entry = set(states)
                after = go(s.orelse, go(s.body, set(states)))
                for h in s.handlers:
                    after |= go(h.body, set(entry))
                states = go(s.finalbody, after) if s.finalbody else after
            elif has(s):
                states = {True}
        return states
    end = go(list(fn_node.body), {False})
    if False in end:
        bad.append(fn_node)
    return (not bad), (bad[0] if bad else None)


def complete_listing_clause(ctx, res, prop, cid, floor=1):
    """the S3 facade lists a prefix completely: through the resource collection (`<Bucket>.objects.filter / all`, which follows every
    page) or a paginator; a direct `list_objects*` client call answers with at most one page (1000 keys) and is accepted only in a
    function that goes on with the continuation token"""
    from ..report import Finding
    from ..loader import norm
    fac = ctx.repo.cls('S3BasicFacade')
    c = res.clause(cid, 'R-AGREE', 'S3 listings follow every page of the answer', floor=floor)
    n_list = 0
    for m in fac.methods.values():
        for n in ast.walk(m.node):
            if not (isinstance(n, ast.Call) and isinstance(n.func, ast.Attribute)):
                continue
            a = n.func.attr
            if a in ('filter', 'all') and isinstance(n.func.value, ast.Attribute) and n.func.value.attr in ('objects', 'object_versions'):
                n_list += 1
                c.instance('%s lists through the resource collection `%s`' % (m.name, norm(n)[:60]), m.qualname, True)
            elif a in ('get_paginator', 'paginate'):
                n_list += 1
                c.instance('%s lists through a paginator' % m.name, m.qualname, True)
            elif a in ('list_objects', 'list_objects_v2', 'list_object_versions'):
                n_list += 1
                follows = any(isinstance(x, ast.Constant) and x.value in ('NextContinuationToken', 'ContinuationToken', 'IsTruncated', 'NextMarker')
                              for x in ast.walk(m.node)) and any(isinstance(l, (ast.While, ast.For)) and any(y is n for y in ast.walk(l)) for l in ast.walk(m.node))
                c.instance('%s: `%s` continues with the continuation token' % (m.name, norm(n)[:60]), m.qualname, follows)
                if not follows:
                    res.add(Finding(prop, cid, 'R-AGREE', m.file, m.qualname, n.lineno, norm(n)[:100],
                                    '`%s` answers with one page (at most 1000 keys) and nothing asks for the next one: recordings beyond the first page '
                                    'of a prefix are never listed - lookups miss them, limits are filled from the first page only, and the same query '
                                    'returns different sets on different cassettes' % norm(n)[:80]))
    c.evaluations += n_list
    return c


def discarded_lazy_calls(ctx, within=None):
    """expression statements that call a generator function of the package and drop the result: nothing of the function's body runs.
    Callees are matched by method / function name when every definition of that name in the package is a generator.
    Returns [(function info, call node, callee qualname)]"""
    repo = ctx.repo
    gens = {}
    plain = set()
    for f in repo.all_functions():
        if f.is_generator and not any(norm(d).endswith('contextmanager') for d in f.node.decorator_list):
            gens.setdefault(f.name, []).append(f)
        else:
            plain.add(f.name)
    out = []
    for f in repo.all_functions():
        if within is not None and f.module.relpath not in within and f.qualname.split('.')[0] not in within:
            continue
        for n in walk_own(f.node):
            if isinstance(n, ast.Expr) and isinstance(n.value, ast.Call):
                fn_ = n.value.func
                nm = fn_.attr if isinstance(fn_, ast.Attribute) else fn_.id if isinstance(fn_, ast.Name) else None
                if nm in gens and nm not in plain:
                    out.append((f, n.value, gens[nm][0].qualname))
    return out


def ctor_prefix_clause(ctx, res, prop, cid, root_name, floor=1):
    """a constructor that replaces an inherited one accepts the same positional arguments in the same places: its parameter list starts
    with the parameters of the constructor it overrides (new options are appended). Callers written against the base - positional
    arguments included - otherwise bind a value to the wrong option without any error"""
    from ..report import Finding
    repo = ctx.repo
    root = repo.cls(root_name)
    c = res.clause(cid, 'R-SIBLING', 'constructors in the %s hierarchy keep the positional parameters of the constructor they override' % root_name, floor=floor)
    for k in [root] + repo.subclasses(root_name):
        own = k.methods.get('__init__')
        if own is None:
            c.instance('%s inherits its constructor' % k.name, k.name, True)
            continue
        base = None
        for b in k.mro()[1:]:
            if '__init__' in b.methods:
                base = b.methods['__init__']
                break
        if base is None:
            c.instance('%s.__init__%s (root)' % (k.name, tuple(own.params[1:])), own.qualname, True)
            continue
        bp, op = base.params[1:], own.params[1:]
        ok = op[:len(bp)] == bp
        c.instance('%s.__init__ starts with the parameters of %s' % (k.name, base.qualname), own.qualname, ok)
        c.evaluations += 1
        if not ok:
            res.add(Finding(prop, cid, 'R-SIBLING', own.file, own.qualname, own.node.lineno, '__init__(%s)' % ', '.join(op),
                            '%s.__init__(%s) does not start with the parameters of the constructor it overrides (%s): a positional argument written '
                            'for `%s` now lands in `%s`, and the option it was meant for silently keeps its default' % (
                                k.name, ', '.join(op), ', '.join(bp), next((b_ for b_, o_ in zip(bp, op) if b_ != o_), bp[-1] if bp else '?'),
                                next((o_ for b_, o_ in zip(bp, op) if b_ != o_), '?'))))
    return c



def exit_never_swallows_clause(ctx, res, prop, cid, floor=1):
    """context managers of the package let exceptions through: `__exit__` returns nothing / False on every path (a truthy return value
    suppresses whatever was raised in the `with` block - every caller's error handling silently stops working)"""
    from ..report import Finding
    c = res.clause(cid, 'R-CONTAIN', 'no __exit__ of the package returns a truthy value (exceptions of the with block propagate)', floor=floor)
    for k in ctx.repo.all_classes():
        ex = k.methods.get('__exit__')
        if ex is None:
            continue
        bad = [r for r in walk_own(ex.node) if isinstance(r, ast.Return) and r.value is not None and
               not (isinstance(r.value, ast.Constant) and r.value.value in (None, False))]
        c.instance('%s.__exit__ returns None / False' % k.name, ex.qualname, not bad)
        c.evaluations += 1
        # leaving the with block releases: every normal path of __exit__ passes the class's close()
        if k.lookup('close') is not None:
            okc, at = every_return_passes(ex.node, lambda x: isinstance(x, ast.Call) and self_attr(x.func) == 'close')
            c.instance('%s.__exit__ calls close() on every path' % k.name, ex.qualname, okc)
            if not okc:
                res.add(Finding(prop, cid, 'R-CONTAIN', ex.file, ex.qualname, getattr(at, 'lineno', ex.node.lineno), 'path of __exit__ without close()',
                                '%s.__exit__ can return without calling close(): a cassette used through `with` (again) keeps its resources - pending '
                                'recordings are not flushed, the worker thread is not joined' % k.name))
        for r in bad[:1]:
            res.add(Finding(prop, cid, 'R-CONTAIN', ex.file, ex.qualname, r.lineno, norm(r)[:100],
                            '%s.__exit__ returns `%s`: a truthy value tells Python to suppress the exception raised inside the with block, so a failing '
                            'step wrapped in `with %s()` is taken for a success by the code that follows' % (k.name, norm(r.value)[:60], k.name)))
    return c


def shared_class_objects(cls, ctor_names=('Event', 'Lock', 'RLock', 'Queue', 'Condition', 'Semaphore', 'Counter', 'defaultdict', 'OrderedDict', 'deque', 'dict', 'list', 'set')):
    """class-level attributes bound to one mutable / synchronisation object that instances use through `self.<name>` without rebinding it in
    __init__: every instance shares the one object. Returns [(assign node, name)]"""
    init = cls.methods.get('__init__')
    inits = {self_attr(t) for n in ast.walk(init.node) if isinstance(n, ast.Assign) for t in n.targets if self_attr(t)} if init is not None else set()
    out = []
    for st_ in cls.node.body:
        if isinstance(st_, ast.Assign) and len(st_.targets) == 1 and isinstance(st_.targets[0], ast.Name):
            v = st_.value
            mutable = isinstance(v, (ast.List, ast.Dict, ast.Set)) or (isinstance(v, ast.Call) and norm(v.func).split('.')[-1] in ctor_names)
            nm = st_.targets[0].id
            if mutable and nm not in inits and any(isinstance(x, ast.Attribute) and self_attr(x) == nm for m in cls.methods.values() for x in ast.walk(m.node)):
                out.append((st_, nm))
    return out


def one_shot_results_read_twice(cls):
    """locals that receive, from a method of cls, a value that can be iterated only once (the method returns a generator expression /
    iter() / map / filter / zip result on some path, or is a generator) and are read more than once by the receiving function (reads in
    the two arms of one `if` count once). Returns [(caller, name, read nodes, callee)]"""
    def returned_one_shot(f):
        if f.is_generator:
            return True
        local_gen = {t.id for n in walk_own(f.node) if isinstance(n, ast.Assign) for t in n.targets if isinstance(t, ast.Name) and
                     (isinstance(n.value, ast.GeneratorExp) or (isinstance(n.value, ast.Call) and isinstance(n.value.func, ast.Name) and n.value.func.id in ONE_SHOT))}
        for r in walk_own(f.node):
            if isinstance(r, ast.Return) and r.value is not None:
                v = r.value
                if isinstance(v, ast.GeneratorExp) or (isinstance(v, ast.Call) and isinstance(v.func, ast.Name) and v.func.id in ONE_SHOT) or \
                        (isinstance(v, ast.Name) and v.id in local_gen):
                    return True
        return False
    producers = {m.name: m for m in cls.methods.values() if not m.is_property and returned_one_shot(m)}
    out = []
    for m in cls.methods.values():
        for n in walk_own(m.node):
            if isinstance(n, ast.Assign) and len(n.targets) == 1 and isinstance(n.targets[0], ast.Name) and isinstance(n.value, ast.Call) and \
                    self_attr(n.value.func) in producers:
                nm = n.targets[0].id
                reads = [x for x in walk_own(m.node) if isinstance(x, ast.Name) and x.id == nm and isinstance(x.ctx, ast.Load)]
                # reads that exclude each other (body / orelse of one if) count once
                groups = []
                for r in reads:
                    placed = False
                    for g in groups:
                        for i_ in [i for i in walk_own(m.node) if isinstance(i, ast.If)]:
                            in_b = lambda x, i_=i_: any(y is x for s_ in i_.body for y in ast.walk(s_))
                            in_o = lambda x, i_=i_: any(y is x for s_ in i_.orelse for y in ast.walk(s_))
                            if (in_b(r) and in_o(g[0])) or (in_o(r) and in_b(g[0])):
                                g.append(r)
                                placed = True
                                break
                        if placed:
                            break
                    if not placed:
                        groups.append([r])
                if len(groups) > 1:
                    out.append((m, nm, reads, producers[self_attr(n.value.func)]))
    return out


def fragile_handler_steps(handler):
    """steps of an isolating `except ... as ex` handler that can fail on their own for some caught exception: indexing (`ex.args[0]` of an
    exception raised without arguments, a missing key) and attributes of the caught exception that not every exception has. A failure there
    replaces the containment by a new exception. Returns the offending nodes"""
    out = []
    for st_ in handler.body:
        for n in ast.walk(st_):
            if isinstance(n, ast.Subscript) and isinstance(n.ctx, ast.Load):
                out.append(n)
            elif isinstance(n, ast.Attribute) and isinstance(n.ctx, ast.Load) and isinstance(n.value, ast.Name) and handler.name and n.value.id == handler.name and \
                    n.attr not in ('args', '__class__', '__traceback__', '__cause__', '__context__', 'with_traceback', '__doc__', '__dict__'):
                out.append(n)
    return out


def mutable_defaults_mutated(fn_node):
    """parameters whose default is a mutable display / constructor call (`[]`, `{}`, `set()`, `list()`, `dict()`) and that the function
    changes in place (append / extend / update / add / subscript store / augmented assignment): the one default object is shared by every
    call that relies on it. Returns [(arg node, mutation node)]"""
    a = fn_node.args
    pos = a.args[len(a.args) - len(a.defaults):] if a.defaults else []
    pairs = list(zip(pos, a.defaults)) + [(p, d) for p, d in zip(a.kwonlyargs, a.kw_defaults) if d is not None]
    out = []
    for p, d in pairs:
        mutable = isinstance(d, (ast.List, ast.Dict, ast.Set)) or (isinstance(d, ast.Call) and isinstance(d.func, ast.Name) and
                                                                    d.func.id in ('list', 'dict', 'set', 'defaultdict', 'OrderedDict', 'deque', 'Counter'))
        if not mutable:
            continue
        rebound = any(isinstance(x, ast.Name) and x.id == p.arg and isinstance(x.ctx, ast.Store) for x in ast.walk(fn_node))
        for n in ast.walk(fn_node):
            hit = (isinstance(n, ast.Call) and isinstance(n.func, ast.Attribute) and isinstance(n.func.value, ast.Name) and n.func.value.id == p.arg and
                   n.func.attr in ('append', 'extend', 'insert', 'update', 'add', 'setdefault', 'pop', 'remove', 'clear', 'sort', 'appendleft')) or \
                  (isinstance(n, ast.Subscript) and isinstance(n.ctx, (ast.Store, ast.Del)) and isinstance(n.value, ast.Name) and n.value.id == p.arg) or \
                  (isinstance(n, ast.AugAssign) and isinstance(n.target, ast.Name) and n.target.id == p.arg)
            if hit and not rebound:
                out.append((p, n))
                break
    return out


def except_names_read_outside(fn_node):
    """names bound by `except ... as name` that are read after their handler (Python unbinds the name when the handler ends: the read raises
    UnboundLocalError / NameError unless something else bound the name). Returns [(handler, read node)]"""
    out = []
    for h in [x for x in ast.walk(fn_node) if isinstance(x, ast.ExceptHandler) and x.name]:
        inside = {id(y) for y in ast.walk(h)}
        other_stores = [y for y in ast.walk(fn_node) if isinstance(y, ast.Name) and y.id == h.name and isinstance(y.ctx, ast.Store)] + \
                       [y for y in ast.walk(fn_node) if isinstance(y, ast.arg) and y.arg == h.name]
        same_name_handlers = [x for x in ast.walk(fn_node) if isinstance(x, ast.ExceptHandler) and x.name == h.name and x is not h]
        covered = {id(y) for x in same_name_handlers for y in ast.walk(x)}
        if other_stores:
            continue
        for y in ast.walk(fn_node):
            if isinstance(y, ast.Name) and y.id == h.name and isinstance(y.ctx, ast.Load) and id(y) not in inside and id(y) not in covered:
                out.append((h, y))
                break
    return out
