"""C12 - Asynchronous recording stores exactly what synchronous recording would (lock and ordering discipline).

  C12.a  R-LOCKSET   every field shared between producer threads and the flusher thread is only touched inside `with <lock>`;
                     the buffer swap (read old list, install new list) happens within one lock region
  C12.b  R-LOCKSET-  no call into the wrapped cassette / recording and no buffered operation is executed while the lock is held
  C12.c  R-WHOCALLS  producers only enqueue: exactly one enqueue per request, a closure over their own parameters; wrapped
                     calls appear only inside those closures
  C12.d  R-ORDER     the flusher applies the swapped-out list in request order, each operation once, a failing one contained
  C12.e  R-MUSTPASS  after the stop signal was observed a final flush runs on every path to the thread's exit
  C12.f  R-ORDER     close: stop signal -> join -> close the wrapped cassette
"""
import ast

from ..report import Result, Finding
from ..loader import walk_own, norm, AnalysisError
from ..resolve import RepoPolicy
from ..cfg import Target
from .. import small

SAFE_TYPES = ('threading.Event', 'threading.Lock', 'threading.RLock', 'threading.Thread', 'threading.Condition')


def self_attr(e):
    if isinstance(e, ast.Attribute) and isinstance(e.value, ast.Name) and e.value.id == 'self':
        return e.attr
    return None


class AsyncPolicy(RepoPolicy):
    def param_iface(self, owner, param):
        if param in ('tape_cassette',):
            return 'TapeCassette'
        if param in ('wrapped_recording',):
            return 'Recording'
        return None

    def iface_target(self, iface, meth, call, frame):
        return Target('opaque', 'wrapped:%s.%s' % (iface, meth), raises=self.excm.ordinary, role='iface')


class LockDomain(small.SmallDomain):
    def __init__(self, *a, **kw):
        self.lock_fields = kw.pop('lock_fields')
        self.watch = kw.pop('watch')
        small.SmallDomain.__init__(self, *a, **kw)
        self.accesses = []      # (node, field, held, kind)
        self.locked_calls = []
        self.events = []

    def _is_lock(self, cm):
        return self_attr(cm) in self.lock_fields

    def on_stmt(self, node, state):
        if node.kind == 'with-enter' and self._is_lock(node.info['cm']):
            return state.with_extra(held=state.extra.get('held', 0) + 1)
        if node.kind == 'with-exit' and self._is_lock(node.info['cm']):
            return state.with_extra(held=max(0, state.extra.get('held', 0) - 1))
        if node.kind == 'stmt' and isinstance(node.ast, (ast.Assign, ast.AugAssign, ast.Expr, ast.Return)):
            self._scan(node, node.ast, state)
        if node.kind == 'branch' and node.info.get('test') is not None:
            self._scan(node, node.info['test'], state)
        return state

    def t_branch(self, node, state):
        if node.info.get('test') is not None:
            self._scan(node, node.info['test'], state)
        if node.info.get('for_stmt') is not None:
            self._scan(node, node.info['for_stmt'].iter, state)
        return small.SmallDomain.t_branch(self, node, state)

    def _scan(self, node, tree, state):
        held = state.extra.get('held', 0)
        for n in ast.walk(tree):
            f = self_attr(n) if isinstance(n, ast.Attribute) else None
            if f in self.watch:
                self.accesses.append((node, f, held, 'store' if isinstance(n.ctx, ast.Store) else 'load', n))

    def on_call_attempt(self, node, t, state):
        held = state.extra.get('held', 0)
        c = node.ast
        if isinstance(c, ast.Call):
            for a in [c.func] + list(c.args) + [k.value for k in c.keywords]:
                self._scan(node, a, state)
        if held and (t.label.startswith(('wrapped:', 'local-callable:', 'param-callable:', 'self-field-callable:')) or t.role in ('dynamic', 'plugin')):
            self.locked_calls.append((node, t, state))
        st = small.SmallDomain.on_call_attempt(self, node, t, state)
        self.events.append((node, t, st))
        return st


def run(ctx):
    res = Result('C12')
    repo = ctx.repo
    res.explanation = (
        'Decides the lock and ordering discipline that makes the interleaving claim true: lock regions are tracked on the CFG of '
        'every method of the asynchronous cassette (exceptional exits of `with` included); fields reachable from both the producer '
        'side and the flusher thread must be touched under the lock only; nothing that can block (wrapped storage, buffered '
        'operations) runs under it; producers enqueue exactly one closure over their own parameters; the flusher iterates the '
        'swapped-out list in order with a per-element handler that stays in the loop; a flush follows the observed stop signal; '
        'close orders signal, join, wrapped close. Not decided: exhaustive interleavings and timer patterns; join timing out.')
    res.not_decided = ['exhaustive interleavings and timer firing patterns', 'join() timing out while the flusher is inside a slow write (wall time)']
    res.assumptions = ['list.append / attribute assignment are atomic under the GIL; Lock / Event are thread safe']
    ca = res.clause('C12.a', 'R-LOCKSET', 'shared fields touched only under the lock; swap within one lock region', floor=3)
    cb = res.clause('C12.b', 'R-LOCKSET', 'no wrapped-storage call / buffered operation executed under the lock', floor=2)
    cc = res.clause('C12.c', 'R-WHOCALLS', 'producers enqueue exactly one closure over their own parameters', floor=3)
    cd = res.clause('C12.d', 'R-ORDER', 'flusher applies the swapped list in order, each once, failures contained', floor=3)
    ce = res.clause('C12.e', 'R-MUSTPASS', 'final flush after the stop signal on every path to thread exit', floor=1)
    cf = res.clause('C12.f', 'R-ORDER', 'close: stop signal, join, wrapped close', floor=1)
    cas = repo.cls('AsyncRecordOnlyTapeCassette')
    rec = repo.cls('AsyncRecording')
    excm = ctx.excm(['playback.tape_cassettes.asynchronous.async_record_only_tape_cassette', 'playback.tape_cassette'])
    pol = AsyncPolicy(repo, excm)
    ftypes = {f: t for (c, f), t in pol.field_types.items() if c == cas.name}
    lock_fields = {f for f, t in ftypes.items() if t[0] == 'lib' and t[1] in ('threading.Lock', 'threading.RLock')}
    if len(lock_fields) != 1:
        raise AnalysisError('anchor-lost role=lock field (found %s)' % sorted(lock_fields))
    # thread target
    target = None
    init = cas.methods['__init__']
    thread_sites = []
    for m_ in cas.methods.values():
        for n in ast.walk(m_.node):
            if isinstance(n, ast.Call) and norm(n.func).endswith('Thread'):
                for k in n.keywords:
                    if k.arg == 'target' and self_attr(k.value):
                        target = cas.lookup(self_attr(k.value))
                        thread_sites.append((m_, n))
    if target is None:
        raise AnalysisError('anchor-lost role=flusher thread target')
    # one flusher per cassette: the thread object is made once, by the constructor (Thread.start() refuses a second start); a thread made
    # per start() / per call lets two flushers apply batches concurrently (order across batches is lost, close() joins only the last)
    ch12 = res.clause('C12.h', 'R-TYPESTATE', 'one flusher thread per cassette, created by the constructor', floor=1)
    outside = [(m_, n) for m_, n in thread_sites if m_.name != '__init__']
    ch12.instance('flusher thread created in the constructor only (%d creation site(s))' % len(thread_sites), cas.name, not outside)
    for m_, n in outside[:1]:
        res.add(Finding('C12', 'C12.h', 'R-TYPESTATE', m_.file, m_.qualname, n.lineno, norm(n)[:100],
                        '%s creates a flusher thread: every call adds another thread that swaps and applies batches - two of them run their batches '
                        'concurrently (writes and the save of one recording are applied out of request order) and close() joins only the last one' % m_.qualname))
    # state of one cassette is its own: no mutable object bound at class level and filled through the instance
    shared_cls = []
    for k_ in (cas, rec):
        inits = {self_attr(t) for n in ast.walk(k_.methods['__init__'].node) if isinstance(n, ast.Assign) for t in n.targets if self_attr(t)} if '__init__' in k_.methods else set()
        for st_ in k_.node.body:
            if isinstance(st_, ast.Assign) and len(st_.targets) == 1 and isinstance(st_.targets[0], ast.Name):
                v = st_.value
                mutable = isinstance(v, (ast.List, ast.Dict, ast.Set)) or (isinstance(v, ast.Call) and isinstance(v.func, ast.Name) and
                                                                          v.func.id in ('list', 'dict', 'set', 'deque', 'defaultdict', 'OrderedDict', 'Counter'))
                if mutable and st_.targets[0].id not in inits:
                    nm_ = st_.targets[0].id
                    used = any(isinstance(x, ast.Attribute) and self_attr(x) == nm_ for m2 in k_.methods.values() for x in ast.walk(m2.node))
                    if used:
                        shared_cls.append((k_, st_, nm_))
    ch12.instance('no mutable class-level attribute serves as per-cassette state', cas.name, not shared_cls)
    for k_, st_, nm_ in shared_cls[:1]:
        res.add(Finding('C12', 'C12.h', 'R-TYPESTATE', k_.module.relpath, k_.name, st_.lineno, norm(st_)[:100],
                        '`%s` is one object shared by every %s until an instance rebinds it: operations enqueued on one cassette are applied by '
                        'another cassette\'s flusher (or by both)' % (nm_, k_.name)))

    def reach(m, seen):
        if m in seen:
            return
        seen.add(m)
        for n in ast.walk(m.node):
            if isinstance(n, ast.Call) and self_attr(n.func) and cas.lookup(n.func.attr) is not None:
                reach(cas.lookup(n.func.attr), seen)
    flusher_side = set()
    reach(target, flusher_side)
    producer_side = set()
    for m in cas.methods.values():
        if m not in flusher_side and m.name != '__init__':
            producer_side.add(m)

    def fields_of(ms, store_only=False):
        out = set()
        for m in ms:
            for n in ast.walk(m.node):
                f = self_attr(n) if isinstance(n, ast.Attribute) else None
                if f and (not store_only or isinstance(n.ctx, ast.Store)):
                    out.add(f)
        return out
    both = fields_of(flusher_side) & fields_of(producer_side)
    written = fields_of(flusher_side | producer_side, store_only=True)
    mutated = set()
    for m in flusher_side | producer_side:
        for n in ast.walk(m.node):
            if isinstance(n, ast.Call) and isinstance(n.func, ast.Attribute) and n.func.attr in ('append', 'extend', 'pop', 'clear', 'remove', 'insert', 'popleft', 'appendleft') \
                    and self_attr(n.func.value):
                mutated.add(self_attr(n.func.value))
    shared = {f for f in both if (f in written or f in mutated) and not (ftypes.get(f, ('', ''))[0] == 'lib' and ftypes[f][1] in SAFE_TYPES)
              and cas.lookup(f) is None}
    if not shared:
        raise AnalysisError('anchor-lost: no field shared between producers and the flusher found')

    # ---------------- lock regions on every method
    all_access = []
    locked_calls = []
    doms = {}
    for m in sorted(cas.methods.values(), key=lambda x: x.name):
        if m.name == '__init__':
            continue
        d = small.analyse(repo, excm, m, policy=PolNoInline(repo, excm), self_cls=cas, domain=LockDomain, lock_fields=lock_fields, watch=shared)
        doms[m.name] = d
        ca.evaluations += d.visited_pairs
        for a in d.accesses:
            all_access.append((m,) + a)
        for lc in d.locked_calls:
            locked_calls.append((m,) + lc)
    by_site = {}
    for m, node, f, held, kind, n in all_access:
        k = (m.qualname, f, n.lineno, kind)
        e = by_site.setdefault(k, dict(ok=True, node=node))
        if not held:
            e['ok'] = False
    for k, e in sorted(by_site.items()):
        ca.instance('%s: %s of self.%s at line %d under the lock' % (k[0], k[3], k[1], k[2]), e['node'].where(), e['ok'])
        if not e['ok']:
            res.add(Finding('C12', 'C12.a', 'R-LOCKSET', e['node'].file, k[0], k[2], '%s of self.%s' % (k[3], k[1]),
                            'field %s is shared between producer threads and the flusher thread but is %s here without holding the lock: an '
                            'operation can be appended to a list that was already swapped out (lost write) or a flag update can be overwritten'
                            % (k[1], 'written' if k[3] == 'store' else 'read')))
    ca.instance('shared fields (touched by producers and flusher): %s' % sorted(shared), cas.name, True, nontrivial=False)
    # swap within one region
    flush = None
    for m in flusher_side:
        for n in ast.walk(m.node):
            if isinstance(n, ast.Assign) and any(self_attr(t) in shared for t in n.targets):
                flush = m
    if flush is None:
        # the flusher reads the shared list but never installs a new one: there is no swap to judge - the clause below reports that
        for m in flusher_side:
            if any(self_attr(n) in shared for n in ast.walk(m.node)):
                flush = m
    if flush is None:
        raise AnalysisError('anchor-lost role=buffer swap')
    swap_sites = [n for m in flusher_side for n in ast.walk(m.node) if isinstance(n, ast.Assign) and any(self_attr(t) in shared for t in n.targets)
                  and isinstance(n.value, (ast.List, ast.Call))]
    if len(swap_sites) > 1 and len({norm(x) for x in swap_sites}) == 1:
        # the same swap written out at several places of the thread function (the flush routine duplicated in place): the clauses below
        # describe one flush routine; nothing is decided about copies of it
        raise AnalysisError('the flusher thread swaps the buffer at %d places (%s): shape not modelled' % (len(swap_sites), norm(swap_sites[0])[:60]))
    swap_ok = False
    swap_partial = None
    swapped_local = None
    buf = None
    for w in [n for m_ in sorted(flusher_side, key=lambda x: x.name) for n in ast.walk(m_.node)
              if isinstance(n, ast.With) and self_attr(n.items[0].context_expr) in lock_fields]:
        reads = [n for n in w.body if isinstance(n, ast.Assign) and self_attr(n.value) in shared and isinstance(n.targets[0], ast.Name)]
        installs = [n for n in w.body if isinstance(n, ast.Assign) and any(self_attr(t) in shared for t in n.targets)]
        part = [n for n in w.body if isinstance(n, ast.Assign) and isinstance(n.value, ast.Subscript) and self_attr(n.value.value) in shared]
        if part:
            swap_partial = part[0]
        if reads and installs and self_attr(reads[0].value) == self_attr(installs[0].targets[0]) and reads[0].lineno < installs[0].lineno:
            empty = isinstance(installs[0].value, (ast.List, ast.Tuple)) and not installs[0].value.elts or \
                (isinstance(installs[0].value, ast.Call) and not installs[0].value.args and not installs[0].value.keywords)
            if not empty:
                swap_partial = installs[0]
                continue
            swap_ok = True
            swapped_local = reads[0].targets[0].id
            buf = self_attr(reads[0].value)
    ca.instance('flusher swaps the buffer (read old, install new) inside one lock region', flush.qualname, swap_ok)
    if not swap_ok and swap_partial is not None:
        res.add(Finding('C12', 'C12.a', 'R-LOCKSET', flush.file, flush.qualname, swap_partial.lineno, norm(swap_partial),
                        'a flush takes only part of the pending operations (`%s`): the single final flush at close leaves the rest unapplied' % norm(swap_partial)))
        swapped_local = swap_partial.targets[0].id if isinstance(swap_partial.targets[0], ast.Name) else swapped_local
    elif not swap_ok:
        res.add(Finding('C12', 'C12.a', 'R-LOCKSET', flush.file, flush.qualname, flush.node.lineno, 'buffer swap',
                        'the flusher does not take the old list and install the new one within a single lock region: an operation appended in '
                        'between is lost or applied twice'))
    # who takes operations out of the buffer: the flusher's swap, nobody else. Producers append; a method that empties / replaces / shortens
    # the shared list drops requested operations of every recording that is pending (the buffer is one queue for all of them)
    takers = []
    for c_ in (cas, rec):
        for m_ in c_.methods.values():
            if m_ in flusher_side or m_.name == '__init__':
                continue
            for n in ast.walk(m_.node):
                hit = (isinstance(n, (ast.Assign, ast.AugAssign, ast.Delete)) and
                       any(self_attr(t_) in shared or (isinstance(t_, ast.Subscript) and self_attr(t_.value) in shared)
                           for t_ in (n.targets if not isinstance(n, ast.AugAssign) else [n.target]))) or \
                      (isinstance(n, ast.Call) and isinstance(n.func, ast.Attribute) and self_attr(n.func.value) in shared and
                       n.func.attr in ('clear', 'pop', 'remove', 'popleft', '__delitem__', 'sort', 'reverse'))
                if hit:
                    takers.append((m_, n))
    ca.instance('operations leave the buffer only through the flusher\'s swap', cas.name, not takers)
    for m_, n in takers[:1]:
        res.add(Finding('C12', 'C12.a', 'R-LOCKSET', m_.file, m_.qualname, n.lineno, norm(n)[:80],
                        '%s removes / replaces pending operations itself (`%s`): the buffer is one queue for every recording in flight, so writes and '
                        'saves that were requested for other recordings are dropped without being applied' % (m_.qualname, norm(n)[:60])))
    # ---------------- C12.b
    cb.instance('calls made while the lock is held: none into wrapped storage / buffered operations', cas.name, not locked_calls)
    cb.evaluations += sum(len(d.events) for d in doms.values())
    for m, node, t, st in locked_calls[:3]:
        res.add(Finding('C12', 'C12.b', 'R-LOCKSET', node.file, m.qualname, node.line, ast.unparse(node.ast),
                        'a call that can block on the wrapped storage (%s) is made while the buffer lock is held: callers appending operations wait for storage' % t.label))
    # the buffered operations are executed outside the lock
    exec_sites = [(m, n) for m in flusher_side for n in ast.walk(m.node) if isinstance(n, ast.Call) and isinstance(n.func, ast.Name)]
    cb.instance('buffered operations executed by the flusher outside any lock region', flush.qualname,
                not any(t.label.startswith('local-callable') for m, node, t, st in locked_calls))

    # ---------------- C12.c producers
    # enqueue sites: an append to a shared list field of the cassette; a call of the method that consists of such an append (the enqueue
    # primitive); a call through a field of the recording that was given such a primitive at construction (a callback)
    def is_append(n):
        return isinstance(n, ast.Call) and isinstance(n.func, ast.Attribute) and n.func.attr == 'append' and self_attr(n.func.value) in shared
    primitives = {m.name for m in cas.methods.values() if m not in flusher_side and m.params[1:] and
                  any(is_append(n) and n.args and isinstance(n.args[0], ast.Name) and n.args[0].id in m.params for n in ast.walk(m.node))}
    callbacks = set()
    rinit = rec.methods.get('__init__')
    if rinit is not None:
        for n in ast.walk(rinit.node):
            if isinstance(n, ast.Assign) and self_attr(n.targets[0]) and isinstance(n.value, ast.Name) and n.value.id in rinit.params:
                if any(isinstance(x, ast.Call) and self_attr(x.func) == self_attr(n.targets[0]) for m2 in rec.methods.values() for x in ast.walk(m2.node)):
                    callbacks.add(self_attr(n.targets[0]))

    def is_enqueue(n):
        if not isinstance(n, ast.Call):
            return False
        if self_attr(n.func) and (n.func.attr in primitives or n.func.attr in callbacks):
            return True
        return is_append(n) and bool(n.args)
    producers = []
    for c in (cas, rec):
        for m in c.methods.values():
            if m.name in primitives or m in flusher_side or m.name == '__init__':
                continue
            if any(is_enqueue(n) for n in ast.walk(m.node)):
                producers.append((c, m))
    if len(producers) < 3:
        raise AnalysisError('anchor-lost role=producer methods (found %s)' % [m.qualname for c, m in producers])

    def deferred(a):
        # a deferred operation: lambda, or functools.partial(f, ...)
        return isinstance(a, ast.Lambda) or (isinstance(a, ast.Call) and norm(a.func).split('.')[-1] == 'partial')
    for c, m in producers:
        enq = [n for n in ast.walk(m.node) if is_enqueue(n)]
        from ..loader import expand_locals as _xl12
        lam = [a for a in (_xl12(m.node, a0, depth=2) for n in enq for a0 in n.args) if deferred(a)]
        ok = len(enq) == 1 and len(lam) == 1
        why = ''
        if ok:
            l = lam[0]
            bound = {a.arg for a in l.args.args} if isinstance(l, ast.Lambda) else set()
            free = {x.id for x in ast.walk(l.body if isinstance(l, ast.Lambda) else l) if isinstance(x, ast.Name)} - bound - {'partial', 'functools'}
            allowed = set(m.all_param_names)
            ok = free <= allowed
            why = 'closure reads %s' % sorted(free)
            # what is handed to the wrapped call is this request's own data: parameters (or attributes of them), never a field of the proxy
            # that later requests go on changing before the flusher gets to run
            inner = [c_ for c_ in ast.walk(l) if isinstance(c_, ast.Call) and isinstance(c_.func, ast.Attribute) and c_ is not l]
            for c_ in inner:
                for a_ in list(c_.args) + [k.value for k in c_.keywords]:
                    if any(isinstance(x, ast.Attribute) and isinstance(x.value, ast.Name) and x.value.id == 'self' for x in ast.walk(a_)) and \
                            'wrapped' in norm(c_.func.value):
                        ok = False
                        why = 'the queued call is given `%s` (a field of the proxy, read when the flusher runs), not a parameter of this request' % norm(a_)
            # enqueue not inside a loop, lambda not reading a loop variable
            for lp in [n for n in ast.walk(m.node) if isinstance(n, (ast.For, ast.While))]:
                if any(x is enq[0] for x in ast.walk(lp)):
                    ok = False
                    why = 'enqueue inside a loop'
        # every call of the producer enqueues: the enqueue is not under a condition and no return precedes it
        if ok and enq:
            from . import common as _cm
            gs = _cm.guards_of(m.node, lambda x: x is enq[0])
            conds = [c_ for st_, cs in gs for c_ in cs]
            if conds:
                ok = False
                why = 'enqueue only when `%s`' % ' and '.join(('' if p_ else 'not ') + norm(t_) for t_, p_ in conds)
        lam_src = [x for n0 in ast.walk(m.node) if isinstance(n0, ast.Lambda) or (isinstance(n0, ast.Call) and norm(n0.func).split('.')[-1] == 'partial')
                   for x in ast.walk(n0)]
        direct = [n for n in ast.walk(m.node) if isinstance(n, ast.Call) and isinstance(n.func, ast.Attribute) and 'wrapped' in norm(n.func.value)
                  and not any(n is x for x in lam_src)]
        ok = ok and not direct
        cc.instance('%s: one enqueue of one closure over its own parameters; wrapped calls only inside it' % m.qualname, m.qualname, ok, detail=why)
        cc.evaluations += 1
        if not ok:
            res.add(Finding('C12', 'C12.c', 'R-WHOCALLS', m.file, m.qualname, m.node.lineno, norm(enq[0])[:120] if enq else 'enqueue',
                            'producer %s does not enqueue exactly one closure over its own parameters (%s%s)' % (
                                m.qualname, why, '; direct wrapped call %s' % norm(direct[0]) if direct else '')))

    # ---------------- C12.d flusher order
    loops = [n for n in walk_own(flush.node) if isinstance(n, ast.For)]
    main = [l for l in loops if isinstance(l.iter, ast.Name) and l.iter.id == swapped_local]
    others = [l for l in loops if l not in main]
    okd = len(main) == 1
    why = ''
    if okd:
        lp = main[0]
        tv = lp.target.id if isinstance(lp.target, ast.Name) else None
        calls = [n for n in ast.walk(lp) if isinstance(n, ast.Call) and isinstance(n.func, ast.Name) and n.func.id == tv]
        tries = [n for n in lp.body if isinstance(n, ast.Try)]
        contained = len(calls) == 1 and len(tries) == 1 and any(x is calls[0] for x in ast.walk(tries[0])) and \
            all(not any(isinstance(x, (ast.Break, ast.Return, ast.Raise)) for x in ast.walk(h)) for h in tries[0].handlers) and \
            any(h.type is None or norm(h.type) in ('Exception', 'BaseException') for h in tries[0].handlers)
        requeue = any(isinstance(x, ast.Name) and x.id == tv for h in (tries[0].handlers if tries else []) for s_ in h.body for x in ast.walk(s_)
                      if not isinstance(s_, ast.Expr) or not norm(s_).startswith('_logger'))
        deref = [x for h in (tries[0].handlers if tries else []) for x in ast.walk(h)
                 if isinstance(x, ast.Attribute) and isinstance(x.value, ast.Name) and x.value.id == tv]
        okd = contained and not requeue and not deref
        why = 'calls per element=%d, per-element try=%d, handler re-queues element=%s, handler dereferences the failed operation=%s' % (
            len(calls), len(tries), requeue, [norm(x) for x in deref])
    cd.instance('flusher: plain `for` over the swapped-out list, each element called once inside its own try', flush.qualname, okd, detail=why)
    if not okd:
        res.add(Finding('C12', 'C12.d', 'R-ORDER', flush.file, flush.qualname, flush.node.lineno, 'flush loop',
                        'the flusher does not apply each swapped-out operation exactly once, in list order, with a failing one contained (%s)' % why))
    cd.instance('flusher executes no operation from any other collection (no retry / reorder lists)', flush.qualname, not others,
                detail='other loops: %s' % [norm(l.iter) for l in others])
    for l in others:
        res.add(Finding('C12', 'C12.d', 'R-ORDER', flush.file, flush.qualname, l.lineno, 'for %s in %s' % (norm(l.target), norm(l.iter)),
                        'the flusher also executes operations from `%s`: operations kept aside are applied after later requests (request order broken) or twice' % norm(l.iter)))
    reorder = [n for n in ast.walk(flush.node) if isinstance(n, ast.Call) and isinstance(n.func, ast.Name) and n.func.id in ('reversed', 'sorted', 'set')]
    early = [n for n in walk_own(flush.node) if isinstance(n, ast.Return)]
    # "nothing was pending" is a fine reason to stop: a return guarded only by the emptiness of the list that was swapped out
    from . import common as _cm12e
    harmless = []
    for st_, conds in _cm12e.guards_of(flush.node, lambda x: isinstance(x, ast.Return)):
        lits = [l for t_, p_ in conds for l in _cm12e.split_literals(t_, p_)]
        if lits and all(isinstance(t_, ast.Name) and t_.id == swapped_local and p_ is False for t_, p_ in lits) and swap_ok:
            harmless.append(st_)
    early = [n for n in early if not any(n is h_ for h_ in harmless)]
    cd.instance('flusher never returns before the swap and never reorders', flush.qualname, not reorder and not early)
    for n in reorder + early:
        res.add(Finding('C12', 'C12.d', 'R-ORDER', flush.file, flush.qualname, n.lineno, norm(n),
                        'the flusher %s: pending operations can be skipped (also by the final flush) or reordered' % ('returns early' if isinstance(n, ast.Return) else 'reorders')))
    cd.evaluations += 3

    # the flusher thread outlives a failing operation: no step of its own (an except-variable read after its handler) can end it
    from .common import except_names_read_outside as _enro
    stale = [(m_, h_, y_) for m_ in flusher_side for h_, y_ in _enro(m_.node)]
    cd.instance('flusher: no name bound by `except .. as` is read outside its handler', flush.qualname, not stale)
    for m_, h_, y_ in stale[:1]:
        res.add(Finding('C12', 'C12.d', 'R-CONTAIN', m_.file, m_.qualname, y_.lineno, '%s read after its handler' % h_.name,
                        '`%s` is bound by `except ... as %s` and read after that handler ended (Python unbinds it there): the read raises '
                        'UnboundLocalError in the flusher thread, which dies - every operation requested afterwards is never applied' % (h_.name, h_.name)))
    # ---------------- C12.e final flush
    dt = doms[target.name]
    ok_final, why = final_flush(target, flush)
    ce.instance('thread function: flush call after the stop-test loop on every path', target.qualname, ok_final, detail=why)
    ce.evaluations += 1
    if not ok_final:
        res.add(Finding('C12', 'C12.e', 'R-MUSTPASS', target.file, target.qualname, target.node.lineno, 'final flush', why))

    # ---------------- C12.f close order
    close = cas.methods.get('close')
    if close is None:
        raise AnalysisError('anchor-lost method=close')
    ln = {}
    for n in ast.walk(close.node):
        if isinstance(n, ast.Call) and isinstance(n.func, ast.Attribute):
            f = self_attr(n.func.value)
            t = ftypes.get(f, ('', ''))
            if n.func.attr == 'set' and t[1] == 'threading.Event':
                ln['signal'] = n.lineno
            if n.func.attr == 'join' and t[1] == 'threading.Thread':
                ln['join'] = n.lineno
            if n.func.attr == 'close' and f and ftypes.get(f, ('',))[0] == 'param':
                ln['wrapped-close'] = n.lineno
    okf = all(k in ln for k in ('signal', 'join', 'wrapped-close')) and ln['signal'] < ln['join'] < ln['wrapped-close']
    # no early return between them
    rets = [n for n in walk_own(close.node) if isinstance(n, ast.Return)]
    okf = okf and not rets
    # only the flusher thread applies buffered operations: a second caller of the flush routine (e.g. close() after a join that timed out)
    # runs concurrently with the first and applies later operations before earlier ones have finished
    callers = [m for c_ in (cas, rec) for m in c_.methods.values() if m is not flush and m is not target and
               any(isinstance(n, ast.Call) and self_attr(n.func) == flush.name for n in ast.walk(m.node))]
    cf.instance('the flush routine is called by the flusher thread only', flush.qualname, not callers)
    cf.evaluations += 1
    for m in callers[:1]:
        res.add(Finding('C12', 'C12.f', 'R-ORDER', m.file, m.qualname, m.node.lineno, 'call of %s in %s' % (flush.name, m.name),
                        '%s applies buffered operations itself: when the flusher thread is still inside a storage call (the join timed out) two threads '
                        'flush concurrently, and an operation requested later (the save) reaches the storage before an earlier write completed' % m.qualname))
    # the flusher's sleep is interruptible by close(): every event it waits on is set by close(), and it does not sleep otherwise
    set_by_close = {self_attr(n.func.value) for n in ast.walk(close.node) if isinstance(n, ast.Call) and isinstance(n.func, ast.Attribute) and
                    n.func.attr == 'set' and self_attr(n.func.value)}
    waits = [n for n in ast.walk(target.node) if isinstance(n, ast.Call) and isinstance(n.func, ast.Attribute) and n.func.attr == 'wait' and
             self_attr(n.func.value)]
    sleeps = [n for n in ast.walk(target.node) if isinstance(n, ast.Call) and norm(n.func).split('.')[-1] == 'sleep']
    deaf = [n for n in waits if self_attr(n.func.value) not in set_by_close] + sleeps
    cf.instance('flusher waits only on events that close() sets (%s)' % sorted({self_attr(n.func.value) for n in waits}), target.qualname,
                bool(waits) and not deaf)
    cf.evaluations += len(waits) + len(sleeps)
    for n in deaf[:1]:
        res.add(Finding('C12', 'C12.f', 'R-ORDER', target.file, target.qualname, n.lineno, norm(n),
                        'the flusher sleeps in `%s`, which close() does not interrupt (close sets %s): with a flush interval longer than the close '
                        'timeout, close() returns while operations are still buffered and the wrapped cassette is closed under them' % (
                            norm(n), sorted(x for x in set_by_close if x))))
    # the join is unconditional: an empty buffer does not mean an idle flusher (it swaps the buffer out before it applies the batch)
    from .common import guards_of as _guards_of
    jg = [(s_, [c_ for c_ in conds if not (isinstance(c_[0], ast.Name) and c_[0].id.startswith('<handler'))]) for s_, conds in
          _guards_of(close.node, lambda x: isinstance(x, ast.Call) and isinstance(x.func, ast.Attribute) and x.func.attr == 'join' and
                     ftypes.get(self_attr(x.func.value), ('', ''))[1] == 'threading.Thread')]
    def _about_thread(t_):
        # tests on the thread itself (is_alive() / started) do not skip a join that could have waited for anything
        fs_ = {self_attr(x) for x in ast.walk(t_) if isinstance(x, ast.Attribute) and self_attr(x)}
        return bool(fs_) and all(ftypes.get(f_, ('', ''))[1] == 'threading.Thread' for f_ in fs_) and not any(isinstance(x, ast.Name) and x.id != 'self' for x in ast.walk(t_))
    jg = [(s_, [c_ for c_ in conds if not _about_thread(c_[0])]) for s_, conds in jg]
    guarded_join = [(s_, conds) for s_, conds in jg if conds]
    cf.instance('close() joins the flusher unconditionally', close.qualname, bool(jg) and not guarded_join)
    for s_, conds in guarded_join[:1]:
        res.add(Finding('C12', 'C12.f', 'R-ORDER', close.file, close.qualname, s_.lineno, 'join only when `%s`' % norm(conds[0][0])[:80],
                        'close() joins the flusher thread only when `%s`: the flusher takes the batch out of the buffer before it applies it, so with an '
                        'empty buffer it can still be inside a storage write - close() then closes the wrapped cassette under it and returns before the '
                        'recording is stored' % norm(conds[0][0])[:80]))
    cf.instance('close(): stop signal (line %s) -> join (%s) -> wrapped close (%s)' % (ln.get('signal'), ln.get('join'), ln.get('wrapped-close')), close.qualname, okf)
    cf.evaluations += 1
    if not okf:
        res.add(Finding('C12', 'C12.f', 'R-ORDER', close.file, close.qualname, close.node.lineno, 'close order %s' % ln,
                        'close() must set the stop signal, then join the flusher, then close the wrapped cassette'))
    # ---- C12.g every write to a recording of the asynchronous cassette reaches its producer hooks (template methods of the hierarchy)
    from . import common as _cm12
    _cm12.template_hooks_clause(ctx, res, 'C12', 'C12.g', 'Recording', floor=2)
    return res


class PolNoInline(AsyncPolicy):
    """each method is analysed on its own (lock regions are lexical); callees summarised"""

    def decide_inline(self, func, call, frame):
        return False

    def summary_target(self, fi, call, frame):
        return Target('opaque', 'repo:' + fi.qualname, role='summary', func=fi)


def final_flush(target, flush):
    body = target.node.body
    loops = [i for i, s in enumerate(body) if isinstance(s, ast.While)]
    if len(loops) != 1:
        raise AnalysisError('thread function has %d top-level loops: shape not modelled' % len(loops))
    i = loops[0]
    w = body[i]
    tests_stop = any(isinstance(n, ast.Call) and isinstance(n.func, ast.Attribute) and n.func.attr == 'is_set' for n in ast.walk(w.test))
    if not tests_stop:
        return False, 'loop condition does not test the stop event'
    if any(isinstance(n, ast.Return) for n in ast.walk(w)):
        return False, 'the loop can return directly, skipping the final flush'
    after = body[i + 1:]
    calls = [s for s in after if isinstance(s, ast.Expr) and isinstance(s.value, ast.Call) and self_attr(s.value.func) == flush.name]
    if not calls:
        return False, 'no unconditional flush after the loop: operations enqueued after the last periodic flush are never applied'
    return True, 'flush at line %d follows the loop' % calls[0].lineno
