"""Return-path tables of small pure functions: every path from entry to a `return` as (conditions, returned expression),
with straight-line local definitions substituted into both.  Decision rules compare the *table*, so the way the
function is written (guard clauses, nested if/else, conditional expression, `a or b`, explaining variables) does not
matter.  No evaluation, no solver: conditions are kept as syntax and classified by the rule."""
import ast
import copy

from .loader import AnalysisError, norm


class Unsupported(AnalysisError):
    pass


class Path(object):
    def __init__(self, conds, value, raises=False):
        self.conds = conds          # list of (ast expr, bool polarity)
        self.value = value          # ast expr or None
        self.raises = raises

    def text(self):
        return '%s => %s' % (' and '.join(('' if p else 'not ') + norm(c) for c, p in self.conds) or 'always',
                             'raise' if self.raises else (norm(self.value) if self.value is not None else 'None'))


def _subst(e, env):
    if e is None:
        return None

    class R(ast.NodeTransformer):
        def visit_Name(self, n):
            if isinstance(n.ctx, ast.Load) and n.id in env:
                return copy.deepcopy(env[n.id])
            return n
    return R().visit(copy.deepcopy(e))


def _split_value(e, conds):
    """value-position conditional / short-circuit operators become separate paths"""
    if isinstance(e, ast.IfExp):
        return _split_test(e.test, conds, lambda c: _split_value(e.body, c), lambda c: _split_value(e.orelse, c))
    if isinstance(e, ast.BoolOp):
        first, rest = e.values[0], e.values[1:]
        tail = rest[0] if len(rest) == 1 else ast.BoolOp(op=e.op, values=rest)
        if isinstance(e.op, ast.Or):
            return _split_value(first, conds + [(first, True)]) + _split_value(tail, conds + [(first, False)])
        return _split_value(tail, conds + [(first, True)]) + _split_value(first, conds + [(first, False)])
    return [(conds, e)]


def _split_test(test, conds, on_true, on_false):
    """paths through a test with short-circuit operators split into literal conditions"""
    if isinstance(test, ast.UnaryOp) and isinstance(test.op, ast.Not):
        return _split_test(test.operand, conds, on_false, on_true)
    if isinstance(test, ast.BoolOp):
        first, rest = test.values[0], test.values[1:]
        tail = rest[0] if len(rest) == 1 else ast.BoolOp(op=test.op, values=rest)
        if isinstance(test.op, ast.And):
            return _split_test(first, conds, lambda c: _split_test(tail, c, on_true, on_false), on_false)
        return _split_test(first, conds, on_true, lambda c: _split_test(tail, c, on_true, on_false))
    if isinstance(test, ast.Constant):
        return on_true(conds) if test.value else on_false(conds)
    return on_true(conds + [(test, True)]) + on_false(conds + [(test, False)])


def return_paths(fn_node, max_paths=256):
    """list of Path for a function without loops whose locals are defined by plain assignments"""
    out = []

    def run(stmts, env, conds):
        """returns list of (env, conds) that fall through"""
        live = [(env, conds)]
        for s in stmts:
            nxt = []
            for env, conds in live:
                nxt.extend(step(s, env, conds))
            live = nxt
            if len(live) + len(out) > max_paths:
                raise Unsupported('too many paths in %s' % getattr(fn_node, 'name', '?'))
            if not live:
                break
        return live

    def step(s, env, conds):
        if isinstance(s, ast.Return):
            v = _subst(s.value, env)
            if v is None:
                out.append(Path(conds, None))
            else:
                for c, e in _split_value(v, conds):
                    out.append(Path(c, e))
            return []
        if isinstance(s, ast.Raise):
            out.append(Path(conds, None, raises=True))
            return []
        if isinstance(s, ast.Assign) and len(s.targets) == 1 and isinstance(s.targets[0], ast.Name):
            v = _subst(s.value, env)
            res = []
            for c, e in _split_value(v, conds):
                e2 = dict(env)
                e2[s.targets[0].id] = e
                res.append((e2, c))
            return res
        if isinstance(s, ast.Assign) and len(s.targets) == 1 and isinstance(s.targets[0], ast.Tuple) and \
                all(isinstance(t, ast.Name) for t in s.targets[0].elts):
            v = _subst(s.value, env)
            e2 = dict(env)
            if isinstance(v, ast.Tuple) and len(v.elts) == len(s.targets[0].elts):
                for t, x in zip(s.targets[0].elts, v.elts):
                    e2[t.id] = x
            else:
                for i, t in enumerate(s.targets[0].elts):
                    e2[t.id] = ast.Subscript(value=v, slice=ast.Constant(value=i), ctx=ast.Load())
            return [(e2, conds)]
        if isinstance(s, ast.If):
            t = _subst(s.test, env)
            return _split_test(t, conds, lambda c: run(s.body, env, c), lambda c: run(s.orelse, env, c))
        if isinstance(s, (ast.Expr, ast.Pass, ast.Assert, ast.Import, ast.ImportFrom)):
            return [(env, conds)]
        if isinstance(s, ast.With):
            e2 = dict(env)
            for it in s.items:
                if isinstance(it.optional_vars, ast.Name):
                    e2.pop(it.optional_vars.id, None)
            return run(s.body, e2, conds)
        if isinstance(s, ast.Try):
            # the normal path of the body, then else; handlers as alternative paths entered under an opaque condition
            res = []
            for env2, c2 in run(s.body, env, conds):
                res.extend(run(s.orelse, env2, c2))
            for h in s.handlers:
                mark = ast.Name(id='<exception %s>' % (norm(h.type) if h.type is not None else ''), ctx=ast.Load())
                res.extend(run(h.body, env, conds + [(mark, True)]))
            if s.finalbody:
                res2 = []
                for env2, c2 in res:
                    res2.extend(run(s.finalbody, env2, c2))
                res = res2
            return res
        if isinstance(s, ast.AugAssign) and isinstance(s.target, ast.Name):
            e2 = dict(env)
            cur = env.get(s.target.id, ast.Name(id=s.target.id, ctx=ast.Load()))
            e2[s.target.id] = ast.BinOp(left=copy.deepcopy(cur), op=s.op, right=_subst(s.value, env))
            return [(e2, conds)]
        if isinstance(s, (ast.Assign, ast.AugAssign, ast.Delete)):
            return [(env, conds)]       # stores into attributes / subscripts: not locals
        if isinstance(s, ast.FunctionDef):
            return [(env, conds)]
        raise Unsupported('statement %s in %s not supported by the path table' % (type(s).__name__, getattr(fn_node, 'name', '?')))

    body = fn_node.body
    for env, conds in run(body, {}, []):
        out.append(Path(conds, None))
    return out


def value_paths(fn_node, assign, max_paths=256):
    """the table of the value stored by one assignment statement of fn_node: as return_paths of the function in which that
    statement returns its value (paths that end elsewhere are dropped)"""
    class R(ast.NodeTransformer):
        def visit_Assign(self, n):
            if n is assign:
                return ast.copy_location(ast.Return(value=n.value), n)
            return n
    marker = object()
    fn2 = copy.copy(fn_node)
    fn2.body = [R().visit(s) if any(x is assign for x in ast.walk(s)) else s for s in _shallow(fn_node.body, assign)]
    return [p for p in return_paths(fn2, max_paths) if p.value is not None or p.raises]


def _shallow(stmts, assign):
    """copies of the statements on the way to `assign` (so the transformer does not touch the original tree)"""
    out = []
    for s in stmts:
        if any(x is assign for x in ast.walk(s)) and s is not assign:
            s2 = copy.copy(s)
            for f in ('body', 'orelse', 'finalbody'):
                if getattr(s2, f, None):
                    setattr(s2, f, _shallow(getattr(s2, f), assign))
            if isinstance(s2, ast.Try):
                s2.handlers = [copy.copy(h) for h in s2.handlers]
                for h in s2.handlers:
                    h.body = _shallow(h.body, assign)
            out.append(s2)
        else:
            out.append(s)
    return out


def classify(cond, polarity, name_pred):
    """classification of one literal condition with respect to an expression recognised by name_pred(expr):
    'none' / 'notnone' (identity test against None), 'truthy' / 'falsy' (truth test), or None if unrelated"""
    if isinstance(cond, ast.Compare) and len(cond.ops) == 1 and isinstance(cond.comparators[0], ast.Constant) and \
            cond.comparators[0].value is None and name_pred(cond.left):
        if isinstance(cond.ops[0], ast.Is):
            return 'none' if polarity else 'notnone'
        if isinstance(cond.ops[0], ast.IsNot):
            return 'notnone' if polarity else 'none'
        if isinstance(cond.ops[0], ast.Eq):
            return 'eqnone' if polarity else 'nenone'
        if isinstance(cond.ops[0], ast.NotEq):
            return 'nenone' if polarity else 'eqnone'
    if name_pred(cond):
        return 'truthy' if polarity else 'falsy'
    return None


def paths_to(stmts, target_pred, max_paths=256):
    """condition lists of the paths through `stmts` (one loop body / function body) that reach a statement accepted by
    target_pred; `continue` / `break` / `return` / `raise` end a path, nested loops are passed over as opaque statements;
    plain local definitions are substituted into later conditions"""
    found = []

    def run(ss, env, conds):
        live = [(env, conds)]
        for s in ss:
            nxt = []
            for env_, conds_ in live:
                nxt.extend(step(s, env_, conds_))
            live = nxt
            if len(live) + len(found) > max_paths:
                raise Unsupported('too many paths')
            if not live:
                break
        return live

    def step(s, env, conds):
        if not isinstance(s, (ast.If, ast.Try, ast.With, ast.For, ast.While)) and any(target_pred(x) for x in ast.walk(s)):
            found.append((s, conds))
            return [(env, conds)]
        if isinstance(s, (ast.Return, ast.Raise, ast.Continue, ast.Break)):
            return []
        if isinstance(s, ast.Assign) and len(s.targets) == 1 and isinstance(s.targets[0], ast.Name):
            e2 = dict(env)
            e2[s.targets[0].id] = _subst(s.value, env)
            return [(e2, conds)]
        if isinstance(s, ast.If):
            t = _subst(s.test, env)
            return _split_test(t, conds, lambda c: run(s.body, env, c), lambda c: run(s.orelse, env, c))
        if isinstance(s, ast.With):
            bound = {n.id for it in s.items if it.optional_vars is not None for n in ast.walk(it.optional_vars) if isinstance(n, ast.Name)}
            return run(s.body, {k: v for k, v in env.items() if k not in bound}, conds)
        if isinstance(s, ast.Try):
            res = []
            for env2, c2 in run(s.body, env, conds):
                res.extend(run(s.orelse, env2, c2))
            for h in s.handlers:
                mark = ast.Name(id='<exception %s>' % (norm(h.type) if h.type is not None else ''), ctx=ast.Load())
                res.extend(run(h.body, _forget(env, ast.Module(body=s.body, type_ignores=[])), conds + [(mark, True)]))
            if s.finalbody:
                res2 = []
                for env2, c2 in res:
                    res2.extend(run(s.finalbody, env2, c2))
                res = res2
            return res
        if isinstance(s, (ast.For, ast.While)):
            # a nested loop: its body may contain the target; conditions inside are local to it
            inner = paths_to(s.body, target_pred, max_paths)
            for st_, cs in inner:
                found.append((st_, conds + cs))
            if s.orelse:
                # the else clause runs when the loop ended without `break`: an opaque condition of its own
                mark = ast.Name(id='<loop at line %s ended without break>' % getattr(s, 'lineno', '?'), ctx=ast.Load())
                return run(s.orelse, _forget(env, s), conds + [(mark, True)]) + ([(_forget(env, s), conds)] if any(isinstance(x, ast.Break) for x in ast.walk(s)) else [])
            return [(_forget(env, s), conds)]
        return [(_forget(env, s), conds)]

    def _forget(env, s):
        stored = {n.id for n in ast.walk(s) if isinstance(n, ast.Name) and isinstance(n.ctx, (ast.Store, ast.Del))}
        if not stored & set(env):
            return env
        return {k: v for k, v in env.items() if k not in stored}
    run(stmts, {}, [])
    return found
