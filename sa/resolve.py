"""Callee resolution and classification (the 'resolved program').

RepoPolicy turns every call site into a cfg.Target:
  inline            repo function whose graph is instantiated at the site
  opaque user-body  the wrapped function / playback function / player: raises any kind, may re-enter the recorder
  opaque user-plugin data handlers, extractors, resolvers...: raise ordinary exceptions
  opaque lib        library / builtin call, raise set from LIB table
  opaque iface      call through an interface (cassette, recording) - raise set from the rule
"""
import ast

from .cfg import Policy, Target
from .loader import norm, AnalysisError, walk_own

# name -> ('nonraising' | 'ordinary' | atom-name-list)
BUILTIN_FUNCS = {
    'len': 'n', 'isinstance': 'n', 'issubclass': 'n', 'callable': 'n', 'hasattr': 'n', 'getattr': 'n', 'type': 'n',
    'list': 'n', 'dict': 'n', 'tuple': 'n', 'set': 'n', 'frozenset': 'n', 'sorted': 'n', 'reversed': 'n',
    'enumerate': 'n', 'range': 'n', 'zip': 'n', 'any': 'n', 'all': 'n', 'next': 'n', 'repr': 'n', 'str': 'n',
    'bytes': 'n', 'int': ['ValueError', 'TypeError'], 'float': ['ValueError', 'TypeError'], 'bool': 'n', 'min': 'n', 'max': 'n', 'sum': 'n', 'abs': 'n',
    'super': 'n', 'id': 'n', 'hash': 'n', 'print': 'n', 'property': 'n', 'staticmethod': 'n', 'map': 'n',
    'filter': 'n', 'format': 'n', 'unicode': 'n', 'object': 'n',
    'iter': ['TypeError'], 'open': ['OSError'],
}
PURE_PREDICATES = {'isinstance', 'callable', 'hasattr', 'is_iterable', 'issubclass'}

# dotted library origins -> effect
LIB_FUNCS = {
    'jsonpickle.encode': 'o', 'jsonpickle.decode': 'o', 'zlib.compress': 'o', 'zlib.decompress': 'o',
    'json.loads': 'o', 'json.dumps': 'o', 'copy.copy': 'n', 'copy.deepcopy': 'o',
    'time.time': 'n', 'datetime.datetime.utcnow': 'n', 'datetime.datetime.today': 'n', 'datetime.datetime.now': 'n',
    'datetime.timedelta': 'n', 'datetime.datetime': 'n',
    'collections.Counter': 'n', 'collections.OrderedDict': 'n', 'collections.defaultdict': 'n',
    'collections.namedtuple': 'n', 'random.Random': 'n', 'random.shuffle': 'n', 'random.choice': 'n',
    'random.random': 'n', 'threading.local': 'n', 'threading.Lock': 'n', 'threading.RLock': 'n',
    'threading.Event': 'n', 'threading.Thread': 'n',
    'uuid.uuid1': 'n', 'uuid.uuid4': 'n', 'fnmatch.fnmatch': ['TypeError'], 'fnmatch.fnmatchcase': ['TypeError'],
    'parse.compile': 'o', 'six.b': 'n', 'six.text_type': 'n', 'six.u': 'n',
    'functools.reduce': 'n', 'base64.b64encode': 'o', 'base64.b64decode': 'o',
    'os.kill': ['OSError'], 'os.getenv': 'n', 'os.listdir': ['OSError'], 'os.mkdir': ['OSError'],
    'os.path.isdir': 'n', 'os.path.isfile': 'n', 'os.path.join': 'n', 'os.path.getsize': ['OSError'],
    'os.path.exists': 'n', 'io.open': ['OSError'], 'io.StringIO': 'n', 'StringIO.StringIO': 'n',
    'logging.getLogger': 'n', 'logging.info': 'n', 'logging.debug': 'n', 'logging.warning': 'n',
    'logging.exception': 'n', 'logging.error': 'n',
    'multiprocessing.Queue': 'n', 'multiprocessing.Event': 'n', 'multiprocessing.Process': 'n',
    'sys.exc_info': 'n', 'traceback.print_tb': 'n', 'traceback.format_exc': 'n',
    'boto3.resource': 'o', 'boto3.client': 'o', 'pytz.utc.localize': 'n', 'enum.Enum': 'n',
    'abc.abstractmethod': 'n', 'decorator.contextmanager': 'n', 'contextlib.contextmanager': 'n',
    'itertools.groupby': 'n', 'itertools.chain': 'n', 're.compile': 'n', 're.match': 'n',
    'operator.eq': 'n', 'operator.lt': ['TypeError'], 'operator.le': ['TypeError'], 'operator.gt': ['TypeError'],
    'operator.ge': ['TypeError'],
}

# method names on values of unknown (framework-owned) type: str / dict / list / logger / datetime ... methods
BENIGN_METHODS = {
    'format', 'encode', 'decode', 'startswith', 'endswith', 'split', 'rsplit', 'replace', 'join', 'strip', 'lstrip',
    'rstrip', 'lower', 'upper', 'items', 'keys', 'values', 'get', 'update', 'append', 'extend', 'pop', 'remove',
    'copy', 'setdefault', 'insert', 'clear', 'index', 'count', 'add', 'discard',
    'info', 'debug', 'warning', 'error', 'exception', 'critical', 'log', 'setLevel',
    'strftime', 'date', 'time', 'total_seconds', 'isoformat', 'timestamp',
    'is_set', 'set', 'wait', 'setDaemon', 'is_alive', 'getvalue', 'random', 'seed', 'hexdigest', 'most_common',
    '__get__', 'localize', 'parse', 'groups', 'group', 'match', 'search',
}
METHOD_RAISES = {   # method name -> atoms, for library objects whose failure mode a handler in the package names
    'join': ['RuntimeError'], 'start': ['RuntimeError'],
    'read': ['OSError'], 'write': ['OSError'], 'close': 'n',
    'put': 'n', 'put_nowait': 'n', 'get_nowait': ['Empty'],
    'kill': ['OSError'], 'terminate': ['OSError'],
}


class RepoPolicy(Policy):
    """Resolution shared by all rules; rule policies subclass and override `decide_inline`, `user_role`,
    `iface_target`."""

    def __init__(self, repo, excm):
        self.repo = repo
        self.excm = excm
        self.field_types = {}     # (class name, field) -> ('class', name) | ('lib', dotted) | ('iface', name) | ('param', name)
        self._scan_field_types()
        self.notes = []

    # ------------------------------------------------------------------ configuration hooks
    def decide_inline(self, func, call, frame):
        return True

    def user_role(self, owner_func, param_name):
        """'body' | 'plugin' | None for a callable supplied through parameter `param_name` of `owner_func`
        (None: a framework-owned object, resolved by interface / method name)"""
        return None

    def reentry_methods(self, frame):
        return ()

    def iface_target(self, iface, meth, call, frame):
        """call through an interface-typed field/param; default: ordinary-raising opaque"""
        return Target('opaque', 'iface:%s.%s' % (iface, meth), raises=self.excm.ordinary, role='iface')

    def param_iface(self, owner_func, param_name):
        """interface (class name) of a parameter, if the rule knows it"""
        return None

    # ------------------------------------------------------------------ field types
    def _scan_field_types(self):
        for c in self.repo.all_classes():
            init = c.methods.get('__init__')
            if init is None:
                continue
            for n in ast.walk(init.node):
                if isinstance(n, ast.Assign) and len(n.targets) == 1 and isinstance(n.targets[0], ast.Attribute) and \
                        isinstance(n.targets[0].value, ast.Name) and n.targets[0].value.id == 'self':
                    fld = n.targets[0].attr
                    v = n.value
                    if isinstance(v, ast.Call):
                        origin = self._origin(v.func, init)
                        if origin is not None:
                            self.field_types[(c.name, fld)] = origin
                    elif isinstance(v, ast.Name) and v.id in init.all_param_names:
                        self.field_types[(c.name, fld)] = ('param', v.id)

    def _origin(self, fexpr, func):
        """('class', Name) for repo classes, ('lib', dotted) for imported callables"""
        mod = func.module
        if isinstance(fexpr, ast.Name):
            if fexpr.id in mod.imports:
                dotted = mod.imports[fexpr.id]
                last = dotted.split('.')[-1]
                if dotted.startswith(self.repo.package + '.') and last in self.repo.classes:
                    return ('class', last)
                return ('lib', dotted)
            if fexpr.id in mod.classes:
                return ('class', fexpr.id)
            return None
        if isinstance(fexpr, ast.Attribute):
            d = self.dotted(fexpr, mod)
            if d is not None:
                return ('lib', d)
        return None

    def dotted(self, e, mod):
        parts = []
        while isinstance(e, ast.Attribute):
            parts.append(e.attr)
            e = e.value
        if isinstance(e, ast.Name) and e.id in mod.imports:
            return '.'.join([mod.imports[e.id]] + list(reversed(parts)))
        return None

    # ------------------------------------------------------------------ name resolution
    def owner_of(self, name, func):
        """the function (func or an enclosing one) in which `name` is a parameter or local, else None"""
        from .loader import walk_own
        f = func
        while f is not None:
            if name in f.all_param_names:
                return f, 'param'
            for n in walk_own(f.node):
                if isinstance(n, ast.Name) and n.id == name and isinstance(n.ctx, ast.Store):
                    return f, 'local'
                if isinstance(n, ast.FunctionDef) and n.name == name:
                    return f, 'def'
            f = f.parent
        return None, None

    def static_values(self, e, frame, depth=0):
        """Follow a name through parameter bindings / single assignments to the things it may denote.
        Returns a list of ('func', FuncInfo, defining_frame) | ('user', owner_func, param) | ('none',) | ('other', expr)"""
        if depth > 12:
            return [('other', e)]
        if isinstance(e, ast.Constant) and e.value is None:
            return [('none',)]
        if isinstance(e, ast.IfExp):
            return self.static_values(e.body, frame, depth + 1) + self.static_values(e.orelse, frame, depth + 1)
        if isinstance(e, ast.Lambda):
            fi = self.repo.func_of_node(e)
            return [('func', fi, frame)] if fi is not None else [('other', e)]
        if isinstance(e, ast.Attribute) and e.attr == '__get__':
            # the getter of a (user supplied) property object: calling it runs the user's function
            return self.static_values(e.value, frame, depth + 1)
        if isinstance(e, ast.Attribute) and isinstance(e.value, ast.Name):
            owner, kind = self.owner_of(e.value.id, frame.func)
            if self.is_self(e.value.id, frame.func):
                cls = frame.self_cls or frame.func.cls
                m = cls.lookup(e.attr) if cls is not None else None
                if m is not None:
                    return [('func', m, None)]
            return [('other', e)]
        if not isinstance(e, ast.Name):
            return [('other', e)]
        name = e.id
        owner, kind = self.owner_of(name, frame.func)
        if owner is None:
            mod = frame.func.module
            if name in mod.functions:
                return [('func', mod.functions[name], None)]
            return [('other', e)]
        # find the frame of owner (current or lexical)
        fr = frame if owner is frame.func else None
        if fr is None:
            lx = frame.lexical
            while lx is not None and lx.func is not owner:
                lx = lx.lexical
            fr = lx
        if kind == 'def':
            return [('func', owner.nested[name], fr)]
        if kind == 'param':
            if fr is not None:
                b = fr.binding.get(name)
                if b is not None and b[0] in ('expr', 'recv'):
                    return self.static_values(b[1], b[2], depth + 1)
                if b is not None and b[0] == 'default':
                    return self.static_values(b[1], fr, depth + 1) if isinstance(b[1], ast.Constant) else [('other', b[1])]
                if fr.parent is not None:
                    # inlined frame but parameter not bound: unknown
                    return [('other', e)]
            return [('user', owner, name)]
        # local: single assignment in owner
        from .loader import walk_own
        assigns = [n for n in walk_own(owner.node) if isinstance(n, ast.Assign) and
                   any(isinstance(t, ast.Name) and t.id == name for t in n.targets)]
        others = [n for n in walk_own(owner.node) if isinstance(n, (ast.AugAssign, ast.For, ast.With)) and
                  any(isinstance(t, ast.Name) and t.id == name and isinstance(t.ctx, ast.Store) for t in ast.walk(n)
                      if not isinstance(n, ast.For) or t is n.target or True) and not isinstance(n, ast.Assign)]
        if assigns and fr is not None or assigns and owner is not frame.func:
            out = []
            for a in assigns:
                # an enclosing function that is not itself a frame (the decorator factory around the analysed closure): its
                # names are resolved lexically from the current frame
                out.extend(self.static_values(a.value, fr if fr is not None else frame, depth + 1))
            return out
        return [('other', e)]

    def static_truth(self, test, frame):
        """truth value of a test that is a (negated) name bound to a constant through parameter bindings"""
        if isinstance(test, ast.UnaryOp) and isinstance(test.op, ast.Not):
            v = self.static_truth(test.operand, frame)
            return None if v is None else (not v)
        if isinstance(test, ast.Constant):
            return bool(test.value)
        if isinstance(test, ast.Name):
            owner, kind = self.owner_of(test.id, frame.func)
            if owner is frame.func and kind == 'param':
                b = frame.binding.get(test.id)
                if b is not None and b[0] in ('expr', 'default'):
                    if isinstance(b[1], ast.Constant):
                        return bool(b[1].value)
                    if b[0] == 'expr' and b[2] is not None:
                        return self.static_truth(b[1], b[2])
        return None

    def is_self(self, name, func):
        f = func
        while f.parent is not None:
            if name in f.all_param_names and not (f.parent is None):
                # shadowed by a parameter of a nested function
                if f is not func or True:
                    pass
            f = f.parent
        # f is the outermost function (a method or a module function)
        if f.cls is not None and not f.is_static and f.params and f.params[0] == name:
            # not shadowed on the way
            g = func
            while g is not f:
                if name in g.all_param_names:
                    return False
                g = g.parent
            return True
        return False

    # ------------------------------------------------------------------ Policy API
    def attr_target(self, attr, frame):
        if isinstance(attr.value, ast.Name) and self.is_self(attr.value.id, frame.func):
            cls = frame.self_cls or frame.func.cls
            if cls is not None:
                m = cls.lookup(attr.attr)
                if m is not None and m.is_property:
                    return m
        return None

    def setter_target(self, attr, frame):
        if isinstance(attr.value, ast.Name) and self.is_self(attr.value.id, frame.func):
            cls = frame.self_cls or frame.func.cls
            if cls is not None:
                for c in cls.mro():
                    if attr.attr in c.setters:
                        return c.setters[attr.attr]
        return None

    def with_target(self, cm, frame):
        if isinstance(cm, ast.Call):
            t = self.call_target(cm, frame, for_with=True)
            if t.kind == 'inline' and t.func.is_contextmanager:
                return t.func
        return None

    def lib_target(self, dotted, call):
        eff = LIB_FUNCS.get(dotted)
        if eff is None:
            # resolvable but not in the table: conservatively may raise an ordinary exception
            self.notes.append('library callable not in effect table, assumed may-raise: %s' % dotted)
            return Target('opaque', 'lib:' + dotted, raises=self.excm.ordinary, role='lib-unknown')
        return Target('opaque', 'lib:' + dotted, raises=self._atoms(eff),
                      role='pure' if dotted.split('.')[-1] in PURE_PREDICATES else 'lib')

    def _atoms(self, eff):
        if eff == 'n':
            return frozenset()
        if eff == 'o':
            return self.excm.ordinary
        out = set()
        for nm in eff:
            if nm in self.excm.parents:
                out |= {a for a in self.excm.under(nm)} if nm != 'Exception' else set(self.excm.ordinary)
            else:
                out.add(self.excm.atom_of(nm) if nm not in ('Empty',) else self.excm.atom_of('Exception'))
        return frozenset(out)

    def func_target(self, fi, call, frame, lexical=None, for_with=False):
        if fi.is_abstract:
            return Target('opaque', 'abstract:' + fi.qualname, raises=self.excm.ordinary, role='iface')
        if fi.is_generator and not fi.is_contextmanager:
            return Target('opaque', 'generator:' + fi.qualname, role='generator')
        if fi.is_contextmanager and not for_with:
            return Target('opaque', 'cm-object:' + fi.qualname, role='cm')
        if self.decide_inline(fi, call, frame):
            return Target('inline', 'repo:' + fi.qualname, func=fi, self_cls=self._self_cls_for(fi, call, frame),
                          lexical=lexical)
        return self.summary_target(fi, call, frame)

    def summary_target(self, fi, call, frame):
        return Target('opaque', 'repo-summary:' + fi.qualname, raises=self.excm.ordinary, role='summary')

    def _self_cls_for(self, fi, call, frame):
        if isinstance(call, ast.Call) and isinstance(call.func, ast.Attribute) and isinstance(call.func.value, ast.Name) \
                and self.is_self(call.func.value.id, frame.func):
            return frame.self_cls or frame.func.cls
        return fi.cls

    def call_target(self, call, frame, for_with=False):
        f = call.func
        mod = frame.func.module
        # ---------------- Name(...)
        if isinstance(f, ast.Name):
            name = f.id
            owner, kind = self.owner_of(name, frame.func)
            if owner is not None:
                vals = self.static_values(f, frame)
                funcs = [v for v in vals if v[0] == 'func']
                users = [v for v in vals if v[0] == 'user']
                if funcs and not users and all(v[0] in ('func', 'none') for v in vals):
                    if len({id(v[1]) for v in funcs}) == 1:
                        return self.func_target(funcs[0][1], call, frame, lexical=funcs[0][2], for_with=for_with)
                if users and all(v[0] in ('user', 'none') for v in vals):
                    return self.user_target(users[0][1], users[0][2], None, call, frame)
                if vals and all(v[0] == 'none' for v in vals):
                    return Target('opaque', 'dead:None-callee ' + norm(f), role='dead')
                # a local bound only to method references (`get = r.get_data_direct` / `get = r.get_data`): either of them is called
                all_binds = [n for n in walk_own(frame.func.node) if isinstance(n, ast.Assign) and len(n.targets) == 1 and
                             isinstance(n.targets[0], ast.Name) and n.targets[0].id == name]
                # bindings under an `if` whose test is decided by the constant arguments of this (inlined) call are dropped
                feasible = []
                for b in all_binds:
                    ok_b = True
                    for i_ in walk_own(frame.func.node):
                        if isinstance(i_, ast.If):
                            in_body = any(x is b for s_ in i_.body for x in ast.walk(s_))
                            in_else = any(x is b for s_ in i_.orelse for x in ast.walk(s_))
                            if in_body or in_else:
                                tv_ = self.static_truth(i_.test, frame)
                                if tv_ is not None and tv_ != in_body:
                                    ok_b = False
                    if ok_b:
                        feasible.append(b)
                binds = [b.value for b in feasible]
                others = [n for n in walk_own(frame.func.node) if isinstance(n, ast.Name) and n.id == name and isinstance(n.ctx, ast.Store)]

                def leaves(e):
                    if isinstance(e, ast.IfExp):
                        tv_ = self.static_truth(e.test, frame)
                        if tv_ is not None:
                            return leaves(e.body if tv_ else e.orelse)
                        return leaves(e.body) + leaves(e.orelse)
                    return [e]
                arms = [x for b in binds for x in leaves(b)]
                if arms and len(others) == len(all_binds) and all(isinstance(a, ast.Attribute) for a in arms) and name not in frame.func.all_param_names:
                    ts = [self.call_target(ast.copy_location(ast.Call(func=a, args=call.args, keywords=call.keywords), call), frame) for a in arms]
                    if len(ts) == 1:
                        return ts[0]
                    if all(t.kind == 'opaque' for t in ts):
                        return Target('opaque', 'either(%s)' % ' | '.join(t.label for t in ts), raises=frozenset().union(*[t.raises for t in ts]),
                                      role=ts[0].role)
                return Target('opaque', 'local-callable:' + norm(f), raises=self.excm.ordinary, role='dynamic')
            if name in mod.functions:
                return self.func_target(mod.functions[name], call, frame, for_with=for_with)
            if name in mod.classes:
                return self.ctor_target(mod.classes[name], call, frame)
            if name in mod.imports:
                dotted = mod.imports[name]
                last = dotted.split('.')[-1]
                if dotted.startswith(self.repo.package + '.'):
                    m2 = self.repo.modules.get(dotted.rsplit('.', 1)[0])
                    if m2 is not None and last in m2.functions:
                        return self.func_target(m2.functions[last], call, frame, for_with=for_with)
                    if m2 is not None and last in m2.classes:
                        return self.ctor_target(m2.classes[last], call, frame)
                return self.lib_target(dotted, call)
            if name in BUILTIN_FUNCS or self._is_builtin_exception(name):
                return Target('opaque', 'builtin:' + name, raises=self._atoms(BUILTIN_FUNCS.get(name, 'n')),
                              role='pure' if name in PURE_PREDICATES else 'builtin')
            if name in mod.globals:
                return Target('opaque', 'global-callable:' + name, role='lib')
            return Target('opaque', 'unknown:' + norm(f))
        # ---------------- recv.meth(...)
        if isinstance(f, ast.Attribute):
            meth = f.attr
            recv = f.value
            # super(...).m()
            if isinstance(recv, ast.Call) and isinstance(recv.func, ast.Name) and recv.func.id == 'super':
                cls = frame.func.cls
                if cls is not None:
                    for c in cls.mro()[1:]:
                        if meth in c.methods:
                            return self.func_target(c.methods[meth], call, frame, for_with=for_with)
                return Target('opaque', 'builtin:super().' + meth, role='builtin')
            if isinstance(recv, ast.Name):
                if self.is_self(recv.id, frame.func):
                    cls = frame.self_cls or frame.func.cls
                    m = cls.lookup(meth) if cls is not None else None
                    if m is not None:
                        return self.func_target(m, call, frame, for_with=for_with)
                    ft = None
                    for c in (cls.mro() if cls is not None else []):
                        ft = self.field_types.get((c.name, meth))
                        if ft is not None:
                            break
                    if ft is not None and ft[0] == 'param':
                        m2 = self.ctor_arg_method(cls, ft[1])
                        if m2 is not None:
                            return self.func_target(m2, call, frame)
                        init = cls.lookup('__init__')
                        if self.user_role(init, ft[1]) is not None:
                            return self.user_target(init, ft[1], None, call, frame)
                    return Target('opaque', 'self-field-callable:' + meth, raises=self.excm.ordinary, role='dynamic')
                # ClassName.method
                cinfo = None
                if recv.id in mod.classes:
                    cinfo = mod.classes[recv.id]
                elif recv.id in mod.imports and mod.imports[recv.id].startswith(self.repo.package + '.'):
                    cinfo = self.repo.find_class(mod.imports[recv.id].split('.')[-1])
                if cinfo is not None:
                    m = cinfo.lookup(meth)
                    if m is not None:
                        return self.func_target(m, call, frame, for_with=for_with)
                    return Target('opaque', 'unknown:' + norm(f))
                owner, kind = self.owner_of(recv.id, frame.func)
                if owner is not None:
                    vals = self.static_values(recv, frame)
                    users = [v for v in vals if v[0] == 'user']
                    if users and all(v[0] in ('user', 'none') for v in vals):
                        return self.user_target(users[0][1], users[0][2], meth, call, frame)
                    if vals and all(v[0] == 'none' for v in vals):
                        return Target('opaque', 'dead:None-receiver ' + norm(f), role='dead')
                    return self.unknown_receiver(recv, meth, call, frame)
                d = self.dotted(f, mod)
                if d is not None:
                    return self.lib_target(d, call)
                return self.unknown_receiver(recv, meth, call, frame)
            # self.field.meth(...)
            if isinstance(recv, ast.Attribute) and isinstance(recv.value, ast.Name) and self.is_self(recv.value.id, frame.func):
                cls = frame.self_cls or frame.func.cls
                ft = None
                if cls is not None:
                    for c in cls.mro():
                        ft = self.field_types.get((c.name, recv.attr))
                        if ft is not None:
                            break
                if ft is not None:
                    if ft[0] == 'class':
                        c2 = self.repo.find_class(ft[1])
                        m = c2.lookup(meth) if c2 is not None else None
                        if m is not None:
                            t = self.func_target(m, call, frame, for_with=for_with)
                            return t
                    if ft[0] == 'lib':
                        return self.libobj_target(ft[1], meth, call)
                    if ft[0] == 'param':
                        init = cls.lookup('__init__')
                        iface = self.param_iface(init, ft[1])
                        if iface is not None:
                            return self.iface_target(iface, meth, call, frame)
                        role = self.user_role(init, ft[1])
                        if role is not None:
                            return self.user_target(init, ft[1], meth, call, frame)
                return self.unknown_receiver(recv, meth, call, frame)
            d = self.dotted(f, mod)
            if d is not None:
                return self.lib_target(d, call)
            return self.unknown_receiver(recv, meth, call, frame)
        # ---------------- (expr)(...)
        if isinstance(f, ast.IfExp):
            arms = [f.body, f.orelse]
            tv = self.static_truth(f.test, frame)
            if tv is not None:
                arms = [f.body] if tv else [f.orelse]
            ts = []
            for arm in arms:
                synth = ast.copy_location(ast.Call(func=arm, args=call.args, keywords=call.keywords), call)
                ts.append(self.call_target(synth, frame))
            if len(ts) == 1:
                return ts[0]
            if all(t.kind == 'opaque' for t in ts):
                raises = frozenset().union(*[t.raises for t in ts])
                return Target('opaque', 'either(%s)' % ' | '.join(t.label for t in ts), raises=raises, role=ts[0].role)
            return Target('opaque', 'dynamic:' + norm(f), raises=self.excm.ordinary, role='dynamic')
        return Target('opaque', 'unknown:' + norm(f))

    def ctor_arg_method(self, cls, param):
        """if every constructor call of `cls` in the package passes `self.<method>` of a repo class for `param`,
        return that method"""
        init = cls.lookup('__init__')
        if init is None or param not in init.params:
            return None
        idx = init.params.index(param) - 1
        found = []
        for f in self.repo.all_functions():
            for n in ast.walk(f.node) if f.parent is None else []:
                if isinstance(n, ast.Call) and isinstance(n.func, ast.Name) and n.func.id == cls.name:
                    arg = None
                    if 0 <= idx < len(n.args):
                        arg = n.args[idx]
                    for k in n.keywords:
                        if k.arg == param:
                            arg = k.value
                    if isinstance(arg, ast.Attribute) and isinstance(arg.value, ast.Name) and arg.value.id == 'self' \
                            and f.cls is not None and f.cls.lookup(arg.attr) is not None:
                        found.append(f.cls.lookup(arg.attr))
                    else:
                        return None
        if found and len({id(x) for x in found}) == 1:
            return found[0]
        return None

    def _is_builtin_exception(self, name):
        import builtins
        o = getattr(builtins, name, None)
        return isinstance(o, type) and issubclass(o, BaseException)

    def interface_of_method(self, meth):
        """the repo interface (class with abstract methods) that declares `meth`, if exactly one does"""
        cands = []
        for c in self.repo.all_classes():
            if any(m.is_abstract for m in c.methods.values()) and meth in c.methods:
                cands.append(c)
        # keep only roots (drop classes that inherit the method from another candidate)
        roots = [c for c in cands if not any(o is not c and c.is_subclass_of(o.name) for o in cands)]
        return roots[0] if len(roots) == 1 else None

    def local_instance_class(self, name, func):
        """class of a local that is assigned exactly once, from a constructor call of a repo class"""
        from .loader import walk_own
        assigns = [n for n in walk_own(func.node) if isinstance(n, ast.Assign) and
                   any(isinstance(t, ast.Name) and t.id == name for t in n.targets)]
        if len(assigns) == 1 and isinstance(assigns[0].value, ast.Call):
            o = self._origin(assigns[0].value.func, func)
            if o is not None and o[0] == 'class':
                return self.repo.find_class(o[1])
        return None

    def libobj_target(self, dotted, meth, call):
        eff = METHOD_RAISES.get(meth)
        if dotted.startswith('multiprocessing.Queue') and meth == 'get':
            eff = ['Empty']
        if eff is None:
            eff = 'n' if meth in BENIGN_METHODS else 'o'
        return Target('opaque', 'libobj:%s.%s' % (dotted, meth), raises=self._atoms_named(eff), role='lib')

    def _atoms_named(self, eff):
        if eff in ('n', 'o'):
            return self._atoms(eff)
        out = set()
        for nm in eff:
            if nm in self.excm.parents:
                out.add(nm)
            else:
                out |= set(self.excm.ordinary)
        return frozenset(out)

    def unknown_receiver(self, recv, meth, call, frame):
        if isinstance(recv, ast.Name):
            c = self.local_instance_class(recv.id, frame.func)
            if c is not None and c.lookup(meth) is not None:
                return self.func_target(c.lookup(meth), call, frame)
        iface = self.interface_of_method(meth)
        if iface is not None:
            return self.iface_target(iface.name, meth, call, frame)
        if meth in METHOD_RAISES:
            return Target('opaque', 'method:' + meth, raises=self._atoms_named(METHOD_RAISES[meth]), role='lib')
        if meth in BENIGN_METHODS:
            return Target('opaque', 'method:' + meth, role='lib')
        return Target('opaque', 'foreign-method:%s on %s' % (meth, norm(recv)), raises=self.excm.ordinary,
                      role='foreign-method')

    def ctor_target(self, cinfo, call, frame):
        return Target('opaque', 'ctor:' + cinfo.name, role='ctor')

    def user_target(self, owner, param, meth, call, frame):
        role = self.user_role(owner, param)
        if role is None:
            if meth is None:
                return Target('opaque', 'param-callable:' + param, raises=self.excm.ordinary, role='dynamic')
            return self.unknown_receiver(ast.Name(id=param, ctx=ast.Load()), meth, call, frame)
        label = 'user-%s:%s%s' % (role, param, ('.' + meth) if meth else '')
        if meth is not None and meth in BENIGN_METHODS and role != 'body' and not self.plugin_method(owner, param, meth):
            return Target('opaque', 'method:' + meth + '@' + param, role='lib')
        if role == 'body':
            return Target('opaque', label, raises=self.excm.all, reentry=self.reentry_methods(frame), role='body')
        return Target('opaque', label, raises=self.excm.ordinary, role='plugin')

    def plugin_method(self, owner, param, meth):
        return False

    def iter_raises(self, node, frame):
        return frozenset()
