"""Role outlining: the inverse of helper inlining, for the few roles the rules know as *functions*.

A refactoring may inline a function that existed on the pinned tree into its caller ("inline method").  The rules that
describe that function's behaviour (a decision table, a taint rule on its parameters, a fact established by its result)
need it as a unit again.  For every role listed in ROLES the construct that defines the role (its marker) is located; when
it no longer sits in the pinned owner but in another function that also existed on the pinned tree, the smallest region
around the marker that has no effect besides computing local values is moved into a synthetic method:

  * statement region: the statement holding the marker, widened to the enclosing `if` statements as long as the whole
    statement is free of foreign effects (return / yield / raise / break / continue, stores through attributes or
    subscripts, calls on `self` other than the marker's own, nested definitions); locals read become parameters, locals
    written and read elsewhere are returned (they have to be assigned on every path of the region);
  * expression region: when the statement itself has foreign effects (an `if` whose branches do the work, a `return`),
    the tested / returned / assigned expression holding the marker becomes `return <expr>` of the synthetic method.

Both are the textbook extract-method transformation, exact under the stated conditions; when they do not hold nothing is
changed and the rules report the lost anchor.
"""
import ast
import copy


def _self_rooted(e):
    while isinstance(e, (ast.Attribute, ast.Subscript, ast.Call)):
        e = e.func if isinstance(e, ast.Call) else e.value
    return isinstance(e, ast.Name) and e.id == 'self'


def _root(e):
    while isinstance(e, (ast.Attribute, ast.Subscript, ast.Call)):
        e = e.func if isinstance(e, ast.Call) else e.value
    return e.id if isinstance(e, ast.Name) else None


_FOREIGN_STMT = (ast.Return, ast.Raise, ast.Break, ast.Continue, ast.FunctionDef, ast.AsyncFunctionDef, ast.ClassDef, ast.Delete,
                 ast.Global, ast.Nonlocal, ast.Try, ast.With, ast.For, ast.While, ast.Import, ast.ImportFrom)
_FOREIGN_EXPR = (ast.Yield, ast.YieldFrom, ast.Await, ast.Lambda, ast.NamedExpr)


def _foreign(node, marker_ids, allowed=()):
    for n in ast.walk(node):
        if isinstance(n, _FOREIGN_STMT + _FOREIGN_EXPR):
            return True
        if isinstance(n, (ast.Assign, ast.AugAssign, ast.AnnAssign)):
            tgts = n.targets if isinstance(n, ast.Assign) else [n.target]
            for t in tgts:
                for x in ([t] if not isinstance(t, ast.Tuple) else t.elts):
                    if not isinstance(x, ast.Name):
                        return True
        if isinstance(n, ast.Call) and id(n) not in marker_ids:
            r = _root(n.func)
            if r == 'self':
                if isinstance(n.func, ast.Attribute) and n.func.attr in allowed:
                    continue
                return True
            if isinstance(n.func, ast.Attribute) and r not in ('_logger', 'logging', 'logger', 'os', 'math') and \
                    n.func.attr not in ('format', 'get', 'encode', 'decode', 'join', 'startswith', 'endswith', 'lower', 'upper', 'strip'):
                return True
    return False


def _definitely_assigned(stmts):
    out = set()
    for s in stmts:
        if isinstance(s, ast.Assign):
            for t in s.targets:
                for x in ([t] if not isinstance(t, ast.Tuple) else t.elts):
                    if isinstance(x, ast.Name):
                        out.add(x.id)
        elif isinstance(s, ast.AugAssign) and isinstance(s.target, ast.Name):
            pass
        elif isinstance(s, ast.If):
            out |= _definitely_assigned(s.body) & _definitely_assigned(s.orelse)
    return out


def _names(nodes, ctx):
    out = []
    for s in nodes:
        for n in ast.walk(s):
            if isinstance(n, ast.Name) and isinstance(n.ctx, ctx) and n.id not in out:
                out.append(n.id)
    return out


def _own_walk(fn):
    stack = list(fn.body)
    while stack:
        n = stack.pop()
        yield n
        for c in ast.iter_child_nodes(n):
            if not isinstance(c, (ast.FunctionDef, ast.AsyncFunctionDef, ast.ClassDef, ast.Lambda)):
                stack.append(c)


def _comp_bound_ids(fn):
    """ids of Name nodes that belong to a comprehension's own scope (its targets and their uses inside it)"""
    out = set()
    for c in ast.walk(fn):
        if isinstance(c, (ast.ListComp, ast.SetComp, ast.DictComp, ast.GeneratorExp)):
            bound = {n.id for g in c.generators for n in ast.walk(g.target) if isinstance(n, ast.Name)}
            for n in ast.walk(c):
                if isinstance(n, ast.Name) and n.id in bound:
                    out.add(id(n))
    return out


def _chain(fn, target):
    """[(list, index)] of the statements enclosing `target`, outermost first"""
    def go(stmts):
        for i, s in enumerate(stmts):
            if isinstance(s, (ast.FunctionDef, ast.AsyncFunctionDef, ast.ClassDef)):
                continue
            if any(x is target for x in ast.walk(s)):
                here = [(stmts, i)]
                for f in ('body', 'orelse', 'finalbody'):
                    sub = getattr(s, f, None)
                    if isinstance(sub, list):
                        r = go(sub)
                        if r:
                            return here + r
                for h in getattr(s, 'handlers', []) or []:
                    r = go(h.body)
                    if r:
                        return here + r
                return here
        return None
    return go(fn.body) or []


def outline(cls_node, fn, marker, name, order_hint=(), extend_forward=True, allowed=()):
    """move the side-effect free region of method `fn` around expression node `marker` into a new method `name` of cls_node;
    returns the new FunctionDef or None when the conditions do not hold"""
    if not fn.args.args or fn.args.args[0].arg != 'self':
        return None
    chain = _chain(fn, marker)
    if not chain:
        return None
    mids = {id(marker)}
    params = [a.arg for a in fn.args.args + fn.args.kwonlyargs] + ([fn.args.vararg.arg] if fn.args.vararg else []) + \
        ([fn.args.kwarg.arg] if fn.args.kwarg else [])
    locals_ = set(params) | set(_names(fn.body, ast.Store))
    for n in ast.walk(fn):
        if isinstance(n, ast.ExceptHandler) and n.name:
            locals_.add(n.name)
        if isinstance(n, ast.arg):
            locals_.add(n.arg)
    locals_.discard('self')
    nested = [n for n in ast.walk(fn) if n is not fn and isinstance(n, (ast.FunctionDef, ast.Lambda))]
    captured = set(_names(nested, ast.Load))

    def ordered(ins):
        hint = [h for h in order_hint if h in ins]
        return hint + [x for x in ins if x not in hint]

    def make(body, ins):
        return ast.FunctionDef(name=name, args=ast.arguments(posonlyargs=[], args=[ast.arg(arg='self')] + [ast.arg(arg=x) for x in ins],
                                                             kwonlyargs=[], kw_defaults=[], defaults=[]),
                               body=body, decorator_list=[], returns=None, type_comment=None, lineno=fn.lineno, col_offset=fn.col_offset)

    def call(ins):
        return ast.Call(func=ast.Attribute(value=ast.Name(id='self', ctx=ast.Load()), attr=name, ctx=ast.Load()),
                        args=[ast.Name(id=x, ctx=ast.Load()) for x in ins], keywords=[])
    stmts, idx = chain[-1]
    s0 = stmts[idx]
    if _foreign(s0, mids, allowed):
        # expression region
        field = 'test' if isinstance(s0, (ast.If, ast.While)) else 'value' if isinstance(s0, (ast.Return, ast.Assign, ast.AugAssign, ast.Expr)) else None
        e = getattr(s0, field, None) if field else None
        if e is None or not any(x is marker for x in ast.walk(e)) or _foreign(e, mids, allowed):
            return None
        ins = ordered([x for x in _names([e], ast.Load) if x in locals_])
        helper = make([ast.Return(value=e)], ins)
        setattr(s0, field, call(ins))
        cls_node.body.append(helper)
        ast.fix_missing_locations(helper)
        return helper
    # statement region, widened over enclosing effect-free ifs
    level = len(chain) - 1
    while level > 0:
        pst, pi = chain[level - 1]
        p = pst[pi]
        if isinstance(p, ast.If) and not _foreign(p, mids, allowed):
            level -= 1
        else:
            break
    stmts, idx = chain[level]
    region = [stmts[idx]]
    # widened forward over the effect-free statements that go on computing with what the region produced
    j = idx + 1
    while extend_forward and j < len(stmts) and isinstance(stmts[j], (ast.Assign, ast.If)) and not _foreign(stmts[j], mids, allowed) and \
            set(_names([stmts[j]], ast.Load)) & set(_names(region, ast.Store)):
        region.append(stmts[j])
        j += 1
    rids = {id(x) for s in region for x in ast.walk(s)}
    writes = _names(region, ast.Store)
    if set(writes) & captured or 'self' in writes:
        return None
    comp = _comp_bound_ids(fn)
    outside_loads = [n.id for n in _own_walk(fn) if isinstance(n, ast.Name) and isinstance(n.ctx, ast.Load) and id(n) not in rids and id(n) not in comp]
    outside_stores = {n.id for n in _own_walk(fn) if isinstance(n, ast.Name) and isinstance(n.ctx, ast.Store) and id(n) not in rids and
                      id(n) not in comp} | set(params)
    outs = [w for w in writes if w in outside_loads]
    da = _definitely_assigned(region)
    ins = [x for x in _names(region, ast.Load) if x in locals_ and x in outside_stores]
    for w in outs:
        if w not in da:
            if w in outside_stores and w not in ins:
                ins.append(w)
            elif w not in outside_stores:
                return None
    ins = ordered([x for x in ins if x != 'self'])
    if not outs:
        return None
    tgt = ast.Name(id=outs[0], ctx=ast.Store()) if len(outs) == 1 else ast.Tuple(elts=[ast.Name(id=x, ctx=ast.Store()) for x in outs], ctx=ast.Store())
    ret = ast.Return(value=ast.Name(id=outs[0], ctx=ast.Load()) if len(outs) == 1 else
                     ast.Tuple(elts=[ast.Name(id=x, ctx=ast.Load()) for x in outs], ctx=ast.Load()))
    helper = make(region + [ret], ins)
    stmts[idx:idx + len(region)] = [ast.copy_location(ast.Assign(targets=[tgt], value=call(ins)), region[0])]
    cls_node.body.append(helper)
    ast.fix_missing_locations(helper)
    return helper


def outline_block(cls_node, fn, marker, name, order_hint=(), single=False):
    """move the outermost block (branch of an `if`, `else` of a loop, handler body) of method `fn` that holds `marker` and contains no
    return / yield / break / continue into a new method; locals read become parameters; locals written and read outside are returned
    unless every path through the block raises (then nothing after it sees them)"""
    if not fn.args.args or fn.args.args[0].arg != 'self':
        return None
    chain = _chain(fn, marker)
    if len(chain) < 2:
        return None
    params = [a.arg for a in fn.args.args + fn.args.kwonlyargs] + ([fn.args.vararg.arg] if fn.args.vararg else []) + \
        ([fn.args.kwarg.arg] if fn.args.kwarg else [])
    locals_ = set(params) | set(_names(fn.body, ast.Store))
    for n in ast.walk(fn):
        if isinstance(n, ast.ExceptHandler) and n.name:
            locals_.add(n.name)
    locals_.discard('self')
    nested = [n for n in ast.walk(fn) if n is not fn and isinstance(n, (ast.FunctionDef, ast.Lambda))]
    captured = set(_names(nested, ast.Load))
    forbidden = (ast.Return, ast.Yield, ast.YieldFrom, ast.FunctionDef, ast.AsyncFunctionDef, ast.ClassDef, ast.Lambda,
                 ast.Global, ast.Nonlocal, ast.Await, ast.NamedExpr, ast.Delete)
    from .normalise import _terminates

    def escapes(block):
        """non-local control flow leaving the block (a break / continue of a loop that lies wholly inside it stays inside)"""
        inner = {id(x) for s in block for l in ast.walk(s) if isinstance(l, (ast.For, ast.While)) for b in l.body + l.orelse for x in ast.walk(b)}
        for s in block:
            for n in ast.walk(s):
                if isinstance(n, (ast.Break, ast.Continue)):
                    if not single or id(n) not in inner:
                        return True
                elif isinstance(n, forbidden):
                    return True
        return False
    cands = []
    for lvl, (stmts, idx) in enumerate(chain):
        if single:
            cands.append((stmts, idx, idx + 1))        # the one statement on the way to the marker
        if lvl > 0:
            cands.append((stmts, 0, len(stmts)))       # the whole block
    for stmts, lo, hi in cands:
        block = stmts[lo:hi]
        if escapes(block):
            continue
        rids = {id(x) for s in block for x in ast.walk(s)}
        writes = _names(block, ast.Store) + [n.name for s in block for n in ast.walk(s) if isinstance(n, ast.ExceptHandler) and n.name]
        if set(writes) & captured or 'self' in writes:
            continue
        comp = _comp_bound_ids(fn)
        outside_loads = [n.id for n in _own_walk(fn) if isinstance(n, ast.Name) and isinstance(n.ctx, ast.Load) and id(n) not in rids and id(n) not in comp]
        outside_stores = {n.id for n in _own_walk(fn) if isinstance(n, ast.Name) and isinstance(n.ctx, ast.Store) and id(n) not in rids and
                          id(n) not in comp} | set(params)
        ins = [x for x in _names(block, ast.Load) if x in locals_ and x in outside_stores and x != 'self']
        outs = [] if _terminates(block) else [w for w in writes if w in outside_loads]
        da = _definitely_assigned(block)
        ok = True
        for w in outs:
            if w not in da:
                if w in outside_stores:
                    if w not in ins:
                        ins.append(w)
                else:
                    ok = False
        if not ok:
            continue
        hint = [h for h in order_hint if h in ins]
        ins = hint + [x for x in ins if x not in hint]
        call = ast.Call(func=ast.Attribute(value=ast.Name(id='self', ctx=ast.Load()), attr=name, ctx=ast.Load()),
                        args=[ast.Name(id=x, ctx=ast.Load()) for x in ins], keywords=[])
        body = list(block)
        if outs:
            tgt = ast.Name(id=outs[0], ctx=ast.Store()) if len(outs) == 1 else ast.Tuple(elts=[ast.Name(id=x, ctx=ast.Store()) for x in outs], ctx=ast.Store())
            body.append(ast.Return(value=ast.Name(id=outs[0], ctx=ast.Load()) if len(outs) == 1 else
                                   ast.Tuple(elts=[ast.Name(id=x, ctx=ast.Load()) for x in outs], ctx=ast.Load())))
            repl = ast.Assign(targets=[tgt], value=call)
        else:
            repl = ast.Expr(value=call)
        helper = ast.FunctionDef(name=name, args=ast.arguments(posonlyargs=[], args=[ast.arg(arg='self')] + [ast.arg(arg=x) for x in ins],
                                                               kwonlyargs=[], kw_defaults=[], defaults=[]),
                                 body=body, decorator_list=[], returns=None, type_comment=None, lineno=block[0].lineno, col_offset=fn.col_offset)
        stmts[lo:hi] = [ast.copy_location(repl, block[0])]
        cls_node.body.append(helper)
        ast.fix_missing_locations(helper)
        return helper
    return None


def outline_run(cls_node, fn, marker, name, order_hint=()):
    """the run of sibling statements that prepares the object handed over by the marker call `r.m(V)`: from the first statement of the
    block that mentions V (going back from the call while every statement either mentions V or only defines locals used inside the run)
    up to the call itself. Exact like any extract-method: no return / yield / break / continue inside, locals read become parameters,
    locals written and read afterwards are returned. The synthetic function is static when the run does not mention `self`."""
    if not (isinstance(marker, ast.Call) and marker.args and isinstance(marker.args[0], ast.Name)):
        return None
    var = marker.args[0].id
    chain = _chain(fn, marker)
    if not chain:
        return None
    stmts, im = chain[-1]
    if len(chain) > 1 and False:
        return None

    def mentions(s, nm):
        return any(isinstance(x, ast.Name) and x.id == nm for x in ast.walk(s))
    forbidden = (ast.Return, ast.Yield, ast.YieldFrom, ast.Break, ast.Continue, ast.FunctionDef, ast.AsyncFunctionDef, ast.ClassDef, ast.Lambda,
                 ast.Global, ast.Nonlocal, ast.Await, ast.NamedExpr, ast.Delete)
    lo = im
    while lo - 1 >= 0:
        s = stmts[lo - 1]
        if any(isinstance(x, forbidden) for x in ast.walk(s)):
            break
        if mentions(s, var):
            lo -= 1
            continue
        # a plain definition of locals that nothing outside the run [lo-1 .. im] reads
        if isinstance(s, ast.Assign) and all(isinstance(t, ast.Name) for t in s.targets):
            tg = {t.id for t in s.targets}
            run_ids = {id(x) for r in stmts[lo - 1:im + 1] for x in ast.walk(r)}
            used_out = any(isinstance(x, ast.Name) and x.id in tg and isinstance(x.ctx, ast.Load) and id(x) not in run_ids for x in _own_walk(fn))
            if not used_out:
                lo -= 1
                continue
        break
    while lo < im and not mentions(stmts[lo], var):
        lo += 1
    region = stmts[lo:im + 1]
    if len(region) < 2 or any(isinstance(x, forbidden) for r in region for x in ast.walk(r)):
        return None
    params = [a.arg for a in fn.args.args + fn.args.kwonlyargs] + ([fn.args.vararg.arg] if fn.args.vararg else []) + \
        ([fn.args.kwarg.arg] if fn.args.kwarg else [])
    rids = {id(x) for r in region for x in ast.walk(r)}
    comp = _comp_bound_ids(fn)
    writes = _names(region, ast.Store)
    outside_loads = [n.id for n in _own_walk(fn) if isinstance(n, ast.Name) and isinstance(n.ctx, ast.Load) and id(n) not in rids and id(n) not in comp]
    outside_stores = {n.id for n in _own_walk(fn) if isinstance(n, ast.Name) and isinstance(n.ctx, ast.Store) and id(n) not in rids and id(n) not in comp} | set(params)
    for n in ast.walk(fn):
        if isinstance(n, ast.ExceptHandler) and n.name and id(n) not in rids:
            outside_stores.add(n.name)
    uses_self = any(isinstance(x, ast.Name) and x.id == 'self' for r in region for x in ast.walk(r))
    ins = [x for x in _names(region, ast.Load) if x in outside_stores and x != 'self' and id(x) not in comp]
    ins = [x for x in ins if not (x in writes and x not in outside_stores)]
    outs = [w for w in writes if w in outside_loads]
    da = _definitely_assigned(region)
    for w in outs:
        if w not in da:
            if w in outside_stores:
                if w not in ins:
                    ins.append(w)
            else:
                return None
    hint = [h for h in order_hint if h in ins]
    ins = hint + [x for x in ins if x not in hint]
    call = ast.Call(func=ast.Attribute(value=ast.Name(id='self', ctx=ast.Load()), attr=name, ctx=ast.Load()),
                    args=[ast.Name(id=x, ctx=ast.Load()) for x in ins], keywords=[])
    body = list(region)
    if outs:
        tgt = ast.Name(id=outs[0], ctx=ast.Store()) if len(outs) == 1 else ast.Tuple(elts=[ast.Name(id=x, ctx=ast.Store()) for x in outs], ctx=ast.Store())
        body.append(ast.Return(value=ast.Name(id=outs[0], ctx=ast.Load()) if len(outs) == 1 else
                               ast.Tuple(elts=[ast.Name(id=x, ctx=ast.Load()) for x in outs], ctx=ast.Load())))
        repl = ast.Assign(targets=[tgt], value=call)
    else:
        repl = ast.Expr(value=call)
    helper = ast.FunctionDef(name=name,
                             args=ast.arguments(posonlyargs=[], args=([ast.arg(arg='self')] if uses_self else []) + [ast.arg(arg=x) for x in ins],
                                                kwonlyargs=[], kw_defaults=[], defaults=[]),
                             body=body, decorator_list=[] if uses_self else [ast.Name(id='staticmethod', ctx=ast.Load())],
                             returns=None, type_comment=None, lineno=region[0].lineno, col_offset=fn.col_offset)
    stmts[lo:im + 1] = [ast.copy_location(repl, region[0])]
    cls_node.body.append(helper)
    ast.fix_missing_locations(helper)
    return helper


# ---- the roles -------------------------------------------------------------------------------------------------------------------

def _is_draw(n):
    return isinstance(n, ast.Call) and isinstance(n.func, ast.Attribute) and n.func.attr == 'random' and not n.args and \
        isinstance(n.func.value, ast.Attribute) and isinstance(n.func.value.value, ast.Name) and n.func.value.value.id == 'self'


def _is_kill_call(cls_node):
    """call of the method of this class that sends the kill signal (os.kill / <handle>.kill())"""
    killers = {m.name for m in cls_node.body if isinstance(m, ast.FunctionDef) and any(
        isinstance(n, ast.Call) and isinstance(n.func, ast.Attribute) and n.func.attr == 'kill' for n in ast.walk(m))}

    def pred(n):
        return isinstance(n, ast.Call) and isinstance(n.func, ast.Attribute) and n.func.attr in killers and \
            isinstance(n.func.value, ast.Name) and n.func.value.id == 'self'
    return pred


ROLES = [
    # (module, class, pinned owner of the marker, marker predicate (or factory taking the class), name of the synthetic method, kind)
    ('playback.tape_recorder', 'TapeRecorder', '_should_sample_active_recording', _is_draw, '_sampling_decision__outlined', 'pure'),
    ('playback.tape_cassettes.s3.s3_tape_cassette', 'S3TapeCassette', '_should_sample', _is_draw, '_size_sampling_decision__outlined',
     ('pure', ('sampling_calculator', 'extract_recording_category'))),
    ('playback.tape_recorder', 'TapeRecorder', '_add_post_operation_metadata',
     lambda n: isinstance(n, ast.Call) and isinstance(n.func, ast.Attribute) and n.func.attr == 'add_metadata' and isinstance(n.func.value, ast.Name),
     '_metadata_step__outlined', 'run'),
    ('playback.studio.equalizer', 'Equalizer', '_play_and_compare_recording_within_worker',
     lambda n: isinstance(n, ast.Call) and isinstance(n.func, ast.Attribute) and n.func.attr == 'put' and isinstance(n.func.value, ast.Attribute) and
     isinstance(n.func.value.value, ast.Name) and n.func.value.value.id == 'self' and 'task' in n.func.value.attr, '_dispatch__outlined', 'stmt'),
    ('playback.studio.equalizer', 'Equalizer', '_handle_compare_execution_timeout', _is_kill_call, '_timeout_path__outlined', 'block'),
    ('playback.interception.files.file_interception', 'FileInterception', '_serialize_file',
     lambda n: isinstance(n, ast.Call) and isinstance(n.func, ast.Attribute) and n.func.attr == 'b64encode', '_serialize__outlined', 'pure'),
    ('playback.interception.files.file_interception', 'FileInterception', '_get_file_path',
     lambda n: isinstance(n, ast.Attribute) and n.attr == 'file_path_arg_name' and isinstance(n.ctx, ast.Load) and isinstance(n.value, ast.Name) and n.value.id == 'self',
     '_path__outlined', 'pure-dup'),
    # (the same lookup written in place in the input handler, a subclass in a module of its own)
    ('playback.interception.files.input_file_interception', 'InputInterceptionFileDataHandler', '_get_file_path',
     lambda n: isinstance(n, ast.Attribute) and n.attr == 'file_path_arg_name' and isinstance(n.ctx, ast.Load) and isinstance(n.value, ast.Name) and n.value.id == 'self',
     '_path__outlined', 'pure-dup'),
    ('playback.studio.studio', 'PlaybackStudio', '_group_recording_ids_by_categories',
     lambda n: isinstance(n, ast.Call) and isinstance(n.func, ast.Attribute) and n.func.attr == 'extract_recording_category',
     '_grouping__outlined', 'block'),
]


# key templates: (module, class, pinned builder, prefix of its format string)
TEMPLATES = [
    ('playback.tape_recorder', 'TapeRecorder', '_output_interception_key', 'output: '),
]


def _outline_templates(trees, signatures, done):
    """`'<template><tail>'.format(a, b)` written in place of `builder(a, b) + '<tail>'`: the field-less tail is split off and the
    template becomes the pinned builder again ('P{}Q{}T'.format(a, b) == 'P{}Q{}'.format(a, b) + 'T' for a tail without fields)"""
    for module, cls, owner, prefix in TEMPLATES:
        t = trees.get(module)
        sig = signatures.get('%s::%s::%s' % (module, cls, owner))
        if t is None or sig is None:
            continue
        for c in t.body:
            if not (isinstance(c, ast.ClassDef) and c.name == cls) or any(isinstance(x, ast.FunctionDef) and x.name == owner for x in c.body):
                continue
            sites = []
            for m in c.body:
                if not isinstance(m, ast.FunctionDef) or '%s::%s::%s' % (module, cls, m.name) not in signatures:
                    continue
                for n in ast.walk(m):
                    if isinstance(n, ast.Call) and isinstance(n.func, ast.Attribute) and n.func.attr == 'format' and \
                            isinstance(n.func.value, ast.Constant) and isinstance(n.func.value.value, str) and \
                            n.func.value.value.startswith(prefix) and not n.keywords and not any(isinstance(a, ast.Starred) for a in n.args):
                        sites.append((m, n))
            if not sites:
                continue
            split = []
            for m, n in sites:
                text = n.func.value.value
                cut = text.rfind('}') + 1
                split.append((text[:cut], text[cut:]))
            params = [p for p in sig if p != 'self']
            if len({h for h, _ in split}) != 1 or any('{' in tl or '}' in tl for _, tl in split) or \
                    any(len(n.args) != len(params) for _, n in sites) or split[0][0].count('{}') != len(params):
                continue
            for (m, n), (head, tail) in zip(sites, split):
                new = ast.Call(func=ast.Attribute(value=ast.Name(id='self', ctx=ast.Load()), attr=owner, ctx=ast.Load()), args=list(n.args), keywords=[])
                repl = ast.BinOp(left=new, op=ast.Add(), right=ast.Constant(value=tail)) if tail else new
                for parent in ast.walk(m):
                    for f, v in ast.iter_fields(parent):
                        if v is n:
                            setattr(parent, f, repl)
                        elif isinstance(v, list):
                            for i, x in enumerate(v):
                                if x is n:
                                    v[i] = repl
            helper = ast.FunctionDef(
                name=owner, args=ast.arguments(posonlyargs=[], args=[ast.arg(arg='self')] + [ast.arg(arg=p) for p in params], kwonlyargs=[], kw_defaults=[], defaults=[]),
                body=[ast.Return(value=ast.Call(func=ast.Attribute(value=ast.Constant(value=split[0][0]), attr='format', ctx=ast.Load()),
                                                args=[ast.Name(id=p, ctx=ast.Load()) for p in params], keywords=[]))],
                decorator_list=[], returns=None, type_comment=None, lineno=sites[0][0].lineno, col_offset=sites[0][0].col_offset)
            c.body.append(helper)
            ast.fix_missing_locations(helper)
            done.append((owner, ', '.join(sorted({m.name for m, _ in sites}))))


def outline_roles(trees, signatures):
    """returns [(role name, function it was taken out of)]"""
    done = []
    _outline_templates(trees, signatures, done)
    for module, cls, owner, pred, name, kind in ROLES:
        t = trees.get(module)
        if t is None:
            continue
        for c in t.body:
            if not (isinstance(c, ast.ClassDef) and c.name == cls):
                continue
            if pred is _is_kill_call:
                pred = pred(c)
            allowed = ()
            dup_ok = False
            if isinstance(kind, tuple):
                kind, allowed = kind
            if kind == 'pure-dup':      # the owner may survive for other callers: an in-place copy is outlined next to it
                kind, dup_ok = 'pure', True
            hosts = [(m, n) for m in c.body if isinstance(m, ast.FunctionDef) and m.name != owner for n in _own_walk(m) if pred(n)]
            if len(hosts) != 1:
                continue
            m, marker = hosts[0]
            if '%s::%s::%s' % (module, cls, m.name) not in signatures:
                continue       # still its own function (renamed): nothing to do
            if any(isinstance(x, ast.FunctionDef) and x.name == owner for x in c.body) and not dup_ok:
                continue
            hint = signatures.get('%s::%s::%s' % (module, cls, owner), [])
            if kind == 'pure':
                h = outline(c, m, marker, name, order_hint=[p for p in hint if p != 'self'], allowed=allowed)
            elif kind == 'run':
                h = outline_run(c, m, marker, name, order_hint=[p for p in hint if p != 'self'])
            else:
                h = outline_block(c, m, marker, name, order_hint=[p for p in hint if p != 'self'], single=(kind == 'stmt'))
            if h is not None:
                done.append((name, m.name))
    return done
