#!/usr/bin/env python3
"""Run all checks against the behaviour-preserving variants of sa/neutral.py (development aid)."""
import os, shutil, subprocess, sys, tempfile
from concurrent.futures import ThreadPoolExecutor
VERIF = os.path.dirname(os.path.dirname(os.path.abspath(__file__)))
sys.path.insert(0, VERIF)
from sa import neutral
PROPS = ['C%02d' % i for i in range(1, 21)]
only = sys.argv[1:] or None
base = tempfile.mkdtemp(prefix='neutraltest-')
try:
    trees = {}
    for name, tr in neutral.VARIANTS:
        dst = os.path.join(base, name)
        shutil.copytree('/repo', dst, ignore=shutil.ignore_patterns('.git', '__pycache__'))
        n = tr(dst)
        trees[name] = dst
        # the variant must still pass the repository's own tests
        print('variant %-24s files changed: %s' % (name, n))
    def job(a):
        name, p = a
        r = subprocess.run(['python3-vt', os.path.join(VERIF, 'sa', 'check.py'), p, '--repo', trees[name], '--evidence-dir', os.path.join(base, 'ev-' + name)],
                           capture_output=True, text=True, cwd=VERIF)
        return name, p, r.returncode, [l for l in r.stdout.splitlines() if l.startswith(('playback/', 'ANALYSIS-ERROR')) ][:3]
    jobs = [(n, p) for n in trees for p in PROPS if not only or p in only]
    with ThreadPoolExecutor(14) as ex:
        for name, p, rc, lines in ex.map(job, jobs):
            if rc != 0:
                print('%-24s %s rc=%d' % (name, p, rc))
                for l in lines:
                    print('      ' + l.replace(trees[name] + '/', '')[:300])
    print('done')
    if '--tests' in sys.argv:
        for name, dst in trees.items():
            r = subprocess.run('cd %s && /venv/bin/python -m pytest -q -p no:cacheprovider --timeout=900 --continue-on-collection-errors 2>&1 | tail -1' % dst, shell=True, capture_output=True, text=True)
            print(name, r.stdout.strip())
finally:
    shutil.rmtree(base, ignore_errors=True)
