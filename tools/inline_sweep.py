#!/usr/bin/env python3
"""Inline-method sweep: for every private function of the package, a variant of /repo in which that function is inlined into
its callers (by the analyser's own exact inliner, run with that one name treated as "new") and removed.  Each variant is a
behaviour-preserving refactoring; every check must stay silent on it.

usage: inline_sweep.py [--out DIR] [--suite] [--only name,...] [--props C01,..] [-j N]
  --suite   also run the repository's test suite on every variant (must stay at the baseline)
"""
import argparse, ast, json, os, re, shutil, subprocess, sys, tempfile
from concurrent.futures import ThreadPoolExecutor

VERIF = os.path.dirname(os.path.dirname(os.path.abspath(__file__)))
sys.path.insert(0, VERIF)

PROPS = ['C%02d' % i for i in range(1, 21)]
SUITE = ['/venv/bin/python', '-m', 'pytest', '-q', '-p', 'no:cacheprovider', '--timeout=900', '--continue-on-collection-errors']


from sa.inline_variants import load, candidates, make_variant, TEST_PINNED, UNMODELLED      # noqa: E402


def suite(dst):
    r = subprocess.run(SUITE, cwd=dst, capture_output=True, text=True, env=dict(os.environ, PYTHONDONTWRITEBYTECODE='1'))
    tail = r.stdout.strip().splitlines()
    summ = [l for l in tail if re.search(r'\d+ (passed|failed)', l)]
    summ = re.sub(r'[= ]*$|^[= ]*', '', summ[-1]) if summ else '?'
    return re.sub(r', \d+ warnings| in [0-9.]+s.*', '', summ)


def one(a, repo, name):
    tmp = tempfile.mkdtemp(prefix='inl-')
    try:
        dst = os.path.join(tmp, 'repo')
        sites, why = make_variant(repo, name, dst)
        if not sites:
            return name, {'skipped': why}
        res = {'sites': ['%s (%s)' % (x[1], x[2]) for x in sites], 'checks': {}}
        if a.suite:
            res['suite'] = suite(dst)
        for p in (a.props.split(',') if a.props else PROPS):
            r = subprocess.run(['python3-vt', os.path.join(VERIF, 'sa', 'check.py'), p, '--repo', dst, '--evidence-dir', os.path.join(tmp, 'ev')],
                               capture_output=True, text=True, cwd=VERIF)
            if r.returncode != 0:
                lines = [l for l in r.stdout.splitlines() if 'conda' not in l and not l.startswith(('  C', 'VIOLATION', p, 'KNOWN'))]
                res['checks'][p] = {'rc': r.returncode, 'lines': [l.replace(dst + '/', '')[:300] for l in lines][:4]}
        if a.out:
            od = os.path.join(a.out, name)
            os.makedirs(od, exist_ok=True)
            d = subprocess.run(['diff', '-ruN', '-x', '__pycache__', '-x', '.git', os.path.join(repo, 'playback'), os.path.join(dst, 'playback')],
                               capture_output=True, text=True).stdout
            d = d.replace(dst + '/', 'b/').replace(repo.rstrip('/') + '/', 'a/')
            open(os.path.join(od, 'patch.diff'), 'w').write(d)
        return name, res
    finally:
        shutil.rmtree(tmp, ignore_errors=True)


def main():
    ap = argparse.ArgumentParser()
    ap.add_argument('--repo', default='/repo')
    ap.add_argument('--out')
    ap.add_argument('--suite', action='store_true')
    ap.add_argument('--only')
    ap.add_argument('--props')
    ap.add_argument('-j', type=int, default=14)
    ap.add_argument('--json')
    a = ap.parse_args()
    names = candidates(a.repo)
    if a.only:
        names = [n for n in names if n in a.only.split(',')]
    with ThreadPoolExecutor(a.j) as ex:
        results = list(ex.map(lambda n: one(a, a.repo, n), names))
    bad = 0
    made = 0
    for name, res in results:
        if 'skipped' in res:
            print('%-48s skipped: %s' % (name, res['skipped']))
            continue
        made += 1
        fails = res['checks']
        expected2 = name in UNMODELLED and all(v['rc'] == 2 for v in fails.values())
        st = 'silent' if not fails else ('unmodelled (exit 2, listed) ' if expected2 else 'ALARM ') + ','.join('%s(rc=%d)' % (p, v['rc']) for p, v in sorted(fails.items()))
        if fails and not expected2 and name not in TEST_PINNED:
            bad += 1
        if name in TEST_PINNED:
            st += ' [not neutral: the tests use this name]'
        print('%-48s %s %s sites=%d' % (name, st, res.get('suite', ''), len(res['sites'])))
        for p, v in sorted(fails.items()):
            for l in v['lines'][:2]:
                print('      %s %s' % (p, l[:260]))
    print('inline sweep: %d variants, %d with an alarm, %d not inlinable' % (made, bad, len(results) - made))
    if a.json:
        json.dump(dict(results), open(a.json, 'w'), indent=1)
    sys.exit(1 if bad else 0)


if __name__ == '__main__':
    main()
