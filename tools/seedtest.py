#!/usr/bin/env python3
"""Run property checks against seeded breaking changes, each applied to a scratch copy of /repo (never to /repo).

usage: seedtest.py [--seeds DIR] [--props C05,C09 | --own] [--only C05/1,...] [-j N]
  --own   run, for each seed, only the check of the property the seed was written against (default)
  --all   run all 20 checks against every seed (cross-detection matrix)
"""
import argparse, json, os, shutil, subprocess, sys, tempfile
from concurrent.futures import ThreadPoolExecutor

VERIF = os.path.dirname(os.path.dirname(os.path.abspath(__file__)))
PROPS = ['C%02d' % i for i in range(1, 21)]


def run_one(seed_dir, props, repo='/repo'):
    tmp = tempfile.mkdtemp(prefix='seedtest-')
    try:
        dst = os.path.join(tmp, 'repo')
        shutil.copytree(repo, dst, ignore=shutil.ignore_patterns('.git', '__pycache__', '*.pyc'))
        r = subprocess.run(['patch', '-p1', '-s', '-i', os.path.join(seed_dir, 'patch.diff')], cwd=dst,
                           capture_output=True, text=True)
        if r.returncode != 0:
            return {'error': 'patch failed: ' + r.stdout + r.stderr}
        out = {}
        for p in props:
            ev = os.path.join(tmp, 'ev')
            r = subprocess.run(['python3-vt', os.path.join(VERIF, 'sa', 'check.py'), p, '--repo', dst, '--evidence-dir', ev],
                               capture_output=True, text=True, cwd=VERIF)
            lines = [l for l in r.stdout.splitlines() if 'conda' not in l]
            viol = [l for l in lines if l.startswith(('playback/', 'ANALYSIS-ERROR')) or ': C' in l[:60]]
            out[p] = {'rc': r.returncode, 'lines': [l.replace(dst + '/', '')[:300] for l in lines if not l.startswith(('  C', 'VIOLATION', p))][:6]}
        return out
    finally:
        shutil.rmtree(tmp, ignore_errors=True)


def main():
    ap = argparse.ArgumentParser()
    ap.add_argument('--seeds', default=os.path.join(VERIF, 'seeded'))
    ap.add_argument('--all', action='store_true')
    ap.add_argument('--props')
    ap.add_argument('--only')
    ap.add_argument('-j', type=int, default=14)
    ap.add_argument('-v', action='store_true')
    ap.add_argument('--summary', default='/tmp/seedtest-summary.json')
    a = ap.parse_args()
    seeds = []
    for prop in sorted(os.listdir(a.seeds)):
        pd = os.path.join(a.seeds, prop)
        if not os.path.isdir(pd):
            continue
        if os.path.exists(os.path.join(pd, 'patch.diff')):      # flat layout: seeded/C05-1/
            seeds.append((prop, prop.split('-')[0], pd))
            continue
        for k in sorted(os.listdir(pd)):
            sd = os.path.join(pd, k)
            if os.path.exists(os.path.join(sd, 'patch.diff')):
                seeds.append(('%s/%s' % (prop, k), prop.split('-')[0], sd))
    if a.only:
        only = set(a.only.split(','))
        seeds = [s for s in seeds if s[0] in only or s[1] in only]

    def job(s):
        name, prop, sd = s
        props = PROPS if a.all else (a.props.split(',') if a.props else [prop])
        return name, run_one(sd, props)
    with ThreadPoolExecutor(a.j) as ex:
        results = list(ex.map(job, seeds))
    summary = {}
    for name, res in results:
        if 'error' in res:
            print('%-8s ERROR %s' % (name, res['error']))
            continue
        hit = [p for p, r in res.items() if r['rc'] == 1]
        err = [p for p, r in res.items() if r['rc'] == 2]
        print('%-8s detected_by=%s%s' % (name, ','.join(hit) or '-', (' analysis_error=' + ','.join(err)) if err else ''))
        if a.v:
            for p, r in res.items():
                if r['rc'] != 0:
                    for l in r['lines']:
                        print('      %s %s' % (p, l))
        summary[name] = {'detected_by': hit, 'analysis_error': err}
    json.dump(summary, open(a.summary, 'w'), indent=1)
    if a.all and a.seeds == os.path.join(VERIF, 'seeded'):
        for name, res in summary.items():
            mp = os.path.join(a.seeds, name, 'meta.json')
            if os.path.exists(mp):
                m = json.load(open(mp))
                m['detected_by'] = res['detected_by']
                m['analysis_error_in'] = res['analysis_error']
                json.dump(m, open(mp, 'w'), indent=1)


if __name__ == '__main__':
    main()
