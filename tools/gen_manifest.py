#!/usr/bin/env python3
"""Generates /verif/MANIFEST.json from the table below (kept in one place so the manifest is always valid)."""
import json, os, sys
VERIF = os.path.dirname(os.path.dirname(os.path.abspath(__file__)))
BASE = "cd /repo && /venv/bin/python -m pytest -ra -q -p no:cacheprovider --timeout=900 --continue-on-collection-errors"

TRUST = ("trusted base: CPython ast parser; the CFG builder with exceptional edges (sa/cfg.py); the raise policy and library effect "
         "table (sa/resolve.py: bodies raise any kind and may re-enter the public recorder API, plug-ins / serializer / storage raise "
         "ordinary exceptions, logging / str.format / container operations on framework-owned values do not raise); abstract "
         "semantics sa/flow.py. Decides named structural clauses that are necessary conditions of the property, not the behaviour as a whole.")

CHECKS = {
 'C01': ('mirror-image agreement of record and replay side: key symmetry, envelope tags, data-handler pairing, provenance of the recorded datum, exception conversion, codec flags (ast + path-sensitive dataflow)', 'R-AGREE / R-PROV writer-reader agreement + path-sensitive typestate over inlined CFG'),
 'C02': ('replay side of all decorators and play() from the replay valuation: body-execution counts, reachability of cassette mutators, outcome class of every exit per cell of the missing-key options vs the documented policy table, sentinel tests', 'path-sensitive typestate / decision-table extraction over inlined CFG with exceptional edges'),
 'C03': ('numbering and content of output capture: one increment + one record per call with ordinal read after increment, entry built from the call\'s own args, one operation-output record per completed run, writer key language vs extractor filter on generated sample keys', 'typestate counters + value provenance over inlined CFG; writer/reader agreement by abstract evaluation of the filter predicate'),
 'C04': ('transparency as path properties of the decorator closures: exactly one call of the wrapped function with unmodified arguments, returned value provenance, only the body\'s own exception escapes (all tolerated faults contained), no nullable dereference after a possible discard, pass-through when idle', 'path-sensitive typestate, exception-provenance and nullable-dereference analysis over inlined CFG with exceptional edges and re-entrant API calls'),
 'C05': ('finalisation typestate of the recording scope on every exit (return, each exception atom, discard/force/enable/disable re-entry), capture-or-dead for executed interceptions, save dominated by keep decision and incomplete flag', 'typestate (exactly-once pairing) over inlined CFG with exceptional edges'),
 'C09': ('return-to-idle typestate of the operation decorator, play() and the input/output decorators on every exit; no per-run writes from idle', 'typestate over inlined CFG with exceptional edges'),
 'C17': ('sampling policy as a decision table of the recorder decision and its S3 sibling, draw count and source, taint from the recording, precedence of skip / discard / forcing, single parameter-table key', 'decision-table extraction from path-sensitive CFG, taint (def-use closure), typestate'),
 'C18': ('how each metadata entry is produced: class/category provenance, exception flag per scope edge, incomplete flag expression on sample key sets plus must-record obligation, duration from two reads of one clock, extractor containment and atomic merge', 'typestate per scope edge + provenance + abstract evaluation of the flag expression'),
}
NOT_YET = "check under construction in this session (design in DESIGN.md section 5); not claimed until built and validated"

def main():
    props = [json.loads(l) for l in open(os.path.join(VERIF, 'properties.jsonl'))]
    checks = []
    na = []
    for p in props:
        pid = p['id']
        if pid in CHECKS:
            text, tech = CHECKS[pid]
            checks.append({
                'property_id': pid,
                'quick_cmd': 'python3-vt sa/check.py %s --tier quick' % pid,
                'thorough_cmd': 'python3-vt sa/check.py %s --tier thorough' % pid,
                'evidence_file': '/verif/evidence/%s.json' % pid,
                'replay_cmd_template': 'python3-vt sa/check.py --explain {path}',
                'engine': 'sa',
                'level_claimed': {'category': 'other',
                                  'text': 'sound static decision of named structural clauses (necessary conditions) of %s: %s. All paths / fault placements / option valuations of the abstraction are covered at once; value-level, timing and schedule clauses are not decided (listed in the evidence and DESIGN.md section 8).' % (pid, text),
                                  'design_ref': 'DESIGN.md section 5, %s' % pid},
                'level_note': TRUST,
                'technique': 'static analysis: ' + tech,
            })
        else:
            na.append({'property_id': pid, 'reason': NOT_YET})
    m = {'version': 1,
         'setup_cmd': 'python3-vt -m compileall -q sa tools',
         'hooks': {'guard': 'PLAYBACK_VERIF', 'enable': 'no hooks: every check parses /repo\'s current source with ast and never imports or runs it; the guard variable is declared for the interface only and nothing reads it',
                   'baseline_off_cmd': BASE,
                   'source_commits': ['a516882', 'e25cba7', 'cd54225', '6538128', 'a198133', '0c3e72b', '8de5114', '129fb30', 'e4b5f23'],
                   'add_only': True},
         'engines': [{'name': 'sa', 'path': 'sa/', 'serves_properties': sorted(CHECKS),
                      'kind_free_text': 'repository-specific static analyser: ast loader + callee resolver, statement CFG with exceptional edges and contextmanager / helper inlining, path-sensitive abstract interpretation over a finite domain, per-property rule modules'}],
         'checks': checks,
         'notes': 'source_commits are fix: commits (unguarded repairs of genuine defects, see known_findings.json), not hooks. Exit 2 + ANALYSIS-ERROR means the analysis could not decide (anchor lost / floor not met), never a pass.',
         'not_applicable': na}
    json.dump(m, open(os.path.join(VERIF, 'MANIFEST.json'), 'w'), indent=1)
    print('checks', len(checks), 'not_applicable', len(na))

if __name__ == '__main__':
    main()
