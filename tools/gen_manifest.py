#!/usr/bin/env python3
"""Generates /verif/MANIFEST.json from the table below (kept in one place so the manifest is always valid)."""
import json, os, sys
VERIF = os.path.dirname(os.path.dirname(os.path.abspath(__file__)))
BASE = "cd /repo && /venv/bin/python -m pytest -ra -q -p no:cacheprovider --timeout=900 --continue-on-collection-errors"

TRUST = ("trusted base: CPython ast parser; the source normalisation (sa/normalise.py: private helpers absent from the pinned tree are inlined back where that is exact, canonical forms; sa/outline.py: pinned functions written in place are taken out again); the CFG builder with exceptional edges (sa/cfg.py); the raise policy and library effect "
         "table (sa/resolve.py: bodies raise any kind and may re-enter the public recorder API, plug-ins / serializer / storage raise "
         "ordinary exceptions, logging / str.format / container operations on framework-owned values do not raise); abstract "
         "semantics sa/flow.py. Decides named structural clauses that are necessary conditions of the property, not the behaviour as a whole.")

CHECKS = {
 'C01': ('mirror-image agreement of record and replay side: key symmetry, envelope tags, data-handler pairing, provenance of the recorded datum, exception conversion, codec flags (ast + path-sensitive dataflow)', 'R-AGREE / R-PROV writer-reader agreement + path-sensitive typestate over inlined CFG'),
 'C02': ('replay side of all decorators and play() from the replay valuation: body-execution counts, reachability of cassette mutators, outcome class of every exit per cell of the missing-key options vs the documented policy table, sentinel tests', 'path-sensitive typestate / decision-table extraction over inlined CFG with exceptional edges'),
 'C03': ('numbering and content of output capture: one increment + one record per call with ordinal read after increment, entry built from the call\'s own args, one operation-output record per completed run, writer key language vs extractor filter on generated sample keys', 'typestate counters + value provenance over inlined CFG; writer/reader agreement by abstract evaluation of the filter predicate'),
 'C04': ('transparency as path properties of the decorator closures: exactly one call of the wrapped function with unmodified arguments, returned value provenance, only the body\'s own exception escapes (all tolerated faults contained), no nullable dereference after a possible discard, pass-through when idle', 'path-sensitive typestate, exception-provenance and nullable-dereference analysis over inlined CFG with exceptional edges and re-entrant API calls'),
 'C05': ('finalisation typestate of the recording scope on every exit (return, each exception atom, discard/force/enable/disable re-entry), capture-or-dead for executed interceptions, save dominated by keep decision and incomplete flag', 'typestate (exactly-once pairing) over inlined CFG with exceptional edges'),
 'C06': ('what may flow into an input key: scan of the key builder and everything it reaches for non-argument sources (clock, randomness, identity, hash(), environment, instance state, memoisation), raw collections only through jsonpickle.encode, kwargs through sorted(), capture selection per guard cell, fallback keys built like the main key, serializer followed into the jsonpickle sources of the repository environment (sort_keys, set iteration order)', 'taint / provenance over the key path call graph + decision-table extraction from the path-sensitive CFG + library-extended source scan'),
 'C07': ('writer/reader agreement of every cassette: codec pair and order, one location function of the id on both sides, what the fetched recording is rebuilt from, NoSuchRecording on every not-stored exit (graph with the facade inlined, origin of the mapped exception), in-memory store holds text', 'sibling / writer-reader agreement over the ast, path-sensitive exception provenance'),
 'C08': ('attribution and containment in the equalizer: yields per iteration of the run generator on every path, provenance of every Comparison argument within the iteration, exceptional exits of the play-and-compare routine and worker loop, one shared routine for both modes, channel correlation (fresh queues per worker)', 'generator typestate (yield counting per iteration) over the CFG with exceptional edges, def-use provenance, who-calls'),
 'C09': ('return-to-idle typestate of the operation decorator, play() and the input/output decorators on every exit; no per-run writes from idle', 'typestate over inlined CFG with exceptional edges'),
 'C10': ('sibling agreement of the three listings and the lookup helper: equality of requested and extracted category established on every path that adds an id (prefix+delimiter for S3), shared matcher, limit never tested by truthiness, S3 key parser inverts the key template with no possibly-empty field, helper forwards arguments unchanged', 'sibling cross-check with path-sensitive guard facts, sentinel classification, template/parser agreement by abstract evaluation on sample keys'),
 'C11': ('copy discipline: get_data returns a codec copy, get_data_direct confined to the recording phase, every fetch rebuilds from a decode made in that call and nothing decoded is cached, replay reader uses the copying read, recorded input passed through pickle_copy whenever the copy flag is set (executor graph, flag as atom)', 'who-calls + def-use provenance + path-sensitive dominance with value dependencies'),
 'C12': ('lock and ordering discipline of the asynchronous cassette: lock regions tracked on the CFG of every method, fields shared between producers and flusher touched under the lock only, nothing blocking under the lock, producers enqueue one closure over their own parameters, flusher applies the swapped list in order each once with failures contained, final flush after the stop signal, close order', 'lockset analysis over the CFG (with-regions incl. exceptional exits), shared-field inference by thread context, ordering / who-calls rules'),
 'C13': ('termination shape of comparison runs: finite timeouts on every blocking get, wait loop bounded by elapsed time, no unbounded join on a possibly hung worker, timeout path must raise / kill with SIGKILL / forget the handle, terminate signal on every exit of the run generator, recycle arithmetic (reset at creation, one increment before each dispatch, >= against the rate, ordered termination)', 'must-pass / must-raise obligations on the inlined CFG with exceptional edges, generator exit typestate, interval step on the age counter'),
 'C14': ('totality and documented meaning of the metadata matcher: every partial operation on an untyped value is a raise site unless guarded by isinstance / membership facts on the path or caught by a TypeError handler; every return path of the value matcher classified and checked against the documented guard order; operator table; every listing uses the matcher', 'may-raise analysis with type-guard facts on the path-sensitive CFG, decision-table extraction'),
 'C15': ('confinement of the S3 cassette: bucket mutators computed from the facade, call sites enumerated package-wide, every public method propagated with the facade inlined and read_only / transient as atoms (guard must be established before each mutation), mutated keys traced to own-prefix class templates, prefix normalisation evaluated on sample prefixes, order of the two puts vs the listed template', 'who-may-call + guard dominance on the inlined CFG + template provenance + order rule'),
 'C16': ('time-window lookup: day-folder enumeration interpreted over (calendar day, unknown time of day) and required to reach the end day for every alignment; day text / id shape agreement and per-recording clock read; the per-object instant predicate evaluated on sample instants for all bound combinations, late-bound closures, position of the limit counter; window bounds forwarded unchanged', 'small abstract interpretation (day-count domain) + abstract evaluation of the predicate + late-binding and def-use checks'),
 'C17': ('sampling policy as a decision table of the recorder decision and its S3 sibling, draw count and source, taint from the recording, precedence of skip / discard / forcing, single parameter-table key', 'decision-table extraction from path-sensitive CFG, taint (def-use closure), typestate'),
 'C19': ('provenance skeleton of the studio: every Equalizer argument traced to the tuning created in that call for that category (no escaping closure / bound method reading state rewritten for the next category), tuner failure path (not a generator, handler returns the exception), grouping of explicit ids by the cassette extraction each once in sorted order, category handed to the lookup', 'def-use provenance and late-binding analysis over the ast'),
 'C20': ('file interception: the size predicate dominates every open/read on the graph of the interception routine and the above answer returns the placeholder; strictness, unit consistency and None sentinel of the predicate; binary modes; codec pair applied to the whole content once, envelope keys, placeholder constant outside the base64 alphabet; paths from one function of the current call; input restore writes on every path; limit source order', 'dominance on the inlined CFG + writer/reader agreement + sentinel classification'),
 'C18': ('how each metadata entry is produced: class/category provenance, exception flag per scope edge, incomplete flag expression on sample key sets plus must-record obligation, duration from two reads of one clock, extractor containment and atomic merge', 'typestate per scope edge + provenance + abstract evaluation of the flag expression'),
}
NOT_YET = "check under construction in this session (design in DESIGN.md section 5); not claimed until built and validated"

def main():
    props = [json.loads(l) for l in open(os.path.join(VERIF, 'properties.jsonl'))]
    checks = []
    na = []
    for p in props:
        pid = p['id']
        if pid in CHECKS:
            text, tech = CHECKS[pid]
            checks.append({
                'property_id': pid,
                'quick_cmd': 'python3-vt sa/check.py %s --tier quick' % pid,
                'thorough_cmd': 'python3-vt sa/check.py %s --tier thorough' % pid,
                'evidence_file': '/verif/evidence/%s.json' % pid,
                'replay_cmd_template': 'python3-vt sa/check.py --explain {path}',
                'engine': 'sa',
                'level_claimed': {'category': 'other',
                                  'text': 'sound static decision of named structural clauses (necessary conditions) of %s: %s. All paths / fault placements / option valuations of the abstraction are covered at once; value-level, timing and schedule clauses are not decided (listed in the evidence and DESIGN.md section 8).' % (pid, text),
                                  'design_ref': 'DESIGN.md section 5, %s' % pid},
                'level_note': TRUST,
                'technique': 'static analysis: ' + tech,
            })
        else:
            na.append({'property_id': pid, 'reason': NOT_YET})
    m = {'version': 1,
         'setup_cmd': 'python3-vt -m compileall -q sa tools',
         'hooks': {'guard': 'PLAYBACK_VERIF', 'enable': 'no hooks: every check parses /repo\'s current source with ast and never imports or runs it; the guard variable is declared for the interface only and nothing reads it',
                   'baseline_off_cmd': BASE,
                   'source_commits': ['a516882', 'e25cba7', 'cd54225', '6538128', 'a198133', '0c3e72b', '8de5114', '129fb30', 'e4b5f23', 'bcc5f54'],
                   'add_only': True},
         'engines': [{'name': 'sa', 'path': 'sa/', 'serves_properties': sorted(CHECKS),
                      'kind_free_text': 'repository-specific static analyser: ast loader + callee resolver, statement CFG with exceptional edges and contextmanager / helper inlining, path-sensitive abstract interpretation over a finite domain, per-property rule modules'}],
         'checks': checks,
         'notes': 'source_commits are fix: commits (unguarded repairs of genuine defects, see known_findings.json), not hooks. Exit 2 + ANALYSIS-ERROR means the analysis could not decide (anchor lost / floor not met), never a pass.',
         'not_applicable': na}
    json.dump(m, open(os.path.join(VERIF, 'MANIFEST.json'), 'w'), indent=1)
    print('checks', len(checks), 'not_applicable', len(na))

if __name__ == '__main__':
    main()
