#!/usr/bin/env python3
"""Apply every programmatic mutant of sa/mutants.py to a scratch copy; run the expected checks; optionally the test suite."""
import os, shutil, subprocess, sys, tempfile
from concurrent.futures import ThreadPoolExecutor
VERIF = os.path.dirname(os.path.dirname(os.path.abspath(__file__)))
sys.path.insert(0, VERIF)
from sa import mutants
base = tempfile.mkdtemp(prefix='mutanttest-')
run_tests = '--tests' in sys.argv
try:
    jobs = []
    for name, props, tr in mutants.MUTANTS:
        dst = os.path.join(base, name)
        shutil.copytree('/repo', dst, ignore=shutil.ignore_patterns('.git', '__pycache__'))
        try:
            n = tr(dst)
        except Exception as ex:
            print('%-50s MUTATION FAILED %r' % (name, ex)); continue
        if not n:
            print('%-50s site not found' % name); continue
        jobs.append((name, props, dst))
    def job(j):
        name, props, dst = j
        out = {}
        for p in props:
            r = subprocess.run(['python3-vt', os.path.join(VERIF, 'sa', 'check.py'), p, '--repo', dst, '--evidence-dir', os.path.join(base, 'ev-' + name)],
                               capture_output=True, text=True, cwd=VERIF)
            first = [l for l in r.stdout.splitlines() if l.startswith(('playback/', 'ANALYSIS-ERROR'))][:1]
            out[p] = (r.returncode, first[0].replace(dst + '/', '')[:200] if first else '')
        suite = ''
        if run_tests:
            r = subprocess.run('cd %s && /venv/bin/python -m pytest -q -p no:cacheprovider --timeout=900 --continue-on-collection-errors 2>&1 | tail -1' % dst, shell=True, capture_output=True, text=True)
            suite = r.stdout.strip()[-60:]
        return name, out, suite
    with ThreadPoolExecutor(12) as ex:
        for name, out, suite in ex.map(job, jobs):
            ok = all(rc == 1 for rc, _ in out.values())
            print('%-50s %s %s %s' % (name, 'OK  ' if ok else 'MISS', {p: rc for p, (rc, _) in out.items()}, suite))
            if not ok:
                for p, (rc, l) in out.items():
                    if rc != 1:
                        print('      %s rc=%d %s' % (p, rc, l))
finally:
    shutil.rmtree(base, ignore_errors=True)
