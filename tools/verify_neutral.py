#!/usr/bin/env python3
"""Confirm that each behaviour-preserving patch under <dir>/<area>/<k>/patch.diff applies to /repo HEAD and leaves the
existing suite at its baseline (same summary counts, same failing test names). usage: verify_neutral.py <dir> [-j N]"""
import os, re, shutil, subprocess, sys, tempfile, json
from concurrent.futures import ThreadPoolExecutor

CMD = ['/venv/bin/python', '-m', 'pytest', '-q', '-p', 'no:cacheprovider', '--timeout=900', '--continue-on-collection-errors']


def one(pd):
    tmp = tempfile.mkdtemp(prefix='vn-')
    try:
        dst = os.path.join(tmp, 'repo')
        shutil.copytree('/repo', dst, ignore=shutil.ignore_patterns('.git', '__pycache__', '*.pyc'))
        r = subprocess.run(['patch', '-p1', '-s', '-i', os.path.join(pd, 'patch.diff')], cwd=dst, capture_output=True, text=True)
        if r.returncode:
            return pd, 'PATCH-FAILED ' + r.stdout[:200]
        r = subprocess.run(CMD, cwd=dst, capture_output=True, text=True, env=dict(os.environ, PYTHONDONTWRITEBYTECODE='1'))
        tail = r.stdout.strip().splitlines()
        summ = [l for l in tail if re.search(r'\d+ (passed|failed)', l)]
        summ = re.sub(r'[= ]*$|^[= ]*', '', summ[-1]) if summ else '?'
        summ = re.sub(r', \d+ warnings| in [0-9.]+s.*', '', summ)
        failed = sorted(l.split(' - ')[0] for l in tail if l.startswith(('FAILED', 'ERROR')))
        return pd, summ + ' | ' + ';'.join(x.split('::')[-1][-60:] for x in failed)
    finally:
        shutil.rmtree(tmp, ignore_errors=True)


def main():
    root = sys.argv[1]
    j = int(sys.argv[sys.argv.index('-j') + 1]) if '-j' in sys.argv else 6
    pds = []
    for a in sorted(os.listdir(root)):
        for k in sorted(os.listdir(os.path.join(root, a))):
            if os.path.exists(os.path.join(root, a, k, 'patch.diff')):
                pds.append(os.path.join(root, a, k))
    with ThreadPoolExecutor(j) as ex:
        for pd, res in ex.map(one, pds):
            print('%-28s %s' % (os.path.relpath(pd, root), res))


if __name__ == '__main__':
    main()
