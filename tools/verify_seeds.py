#!/usr/bin/env python3
"""Confirm candidate seeded changes (from sub-agents) in scratch copies: patch applies, existing suite result unchanged,
demo passes without the change and fails with it. Confirmed ones are stored under /verif/seeded/<Cxx-k>/."""
import json, os, shutil, subprocess, sys, tempfile, re
from concurrent.futures import ThreadPoolExecutor
VERIF = os.path.dirname(os.path.dirname(os.path.abspath(__file__)))
SRC = sys.argv[1] if len(sys.argv) > 1 else "/tmp/seed_out"
OFFSET = int(sys.argv[2]) if len(sys.argv) > 2 else 0
EXPECT_FAIL = {'test_record_and_playback_basic_operation_data_interception_no_arguments_raise_exception',
               'test_record_and_playback_basic_operation_output_interception_no_arguments_raise_exception'}

def sh(cmd, cwd, timeout=600):
    r = subprocess.run(cmd, shell=True, cwd=cwd, capture_output=True, text=True, timeout=timeout)
    return r.returncode, r.stdout + r.stderr

def verify(item):
    prop, k, sd = item
    name = '%s-%d' % (prop, int(k) + OFFSET)
    tmp = tempfile.mkdtemp(prefix='seedverify-')
    out = {'name': name}
    try:
        clean = os.path.join(tmp, 'clean'); mut = os.path.join(tmp, 'mut')
        for d in (clean, mut):
            shutil.copytree('/repo', d, ignore=shutil.ignore_patterns('.git', '__pycache__', '.pytest_cache'))
        rc, o = sh('patch -p1 -s --no-backup-if-mismatch -i %s' % os.path.join(sd, 'patch.diff'), mut)
        out['applies'] = rc == 0
        if rc != 0:
            out['error'] = o[-300:]
            return out
        demo = None
        for f in ('demo.py', 'test_demo.py'):
            if os.path.exists(os.path.join(sd, f)):
                demo = f
        out['demo'] = demo
        rc, o = sh('/venv/bin/python -m pytest -q -p no:cacheprovider --timeout=900 --continue-on-collection-errors 2>&1 | tail -8', mut)
        m = re.search(r'(\d+) failed, (\d+) passed.*?(\d+) error', o)
        failed = set(re.findall(r'FAILED \S+::(\w+)', o))
        out['suite'] = m.group(0) if m else o[-200:]
        out['suite_ok'] = bool(m) and m.group(1) == '2' and m.group(2) == '105' and m.group(3) == '1' and failed == EXPECT_FAIL
        cmd = '/venv/bin/python %s' % os.path.join(sd, demo) if demo == 'demo.py' else '/venv/bin/python -m pytest -q -p no:cacheprovider %s' % os.path.join(sd, demo)
        env = 'PYTHONPATH=. '
        rc_c, o_c = sh(env + cmd, clean, timeout=180)
        rc_m, o_m = sh(env + cmd, mut, timeout=180)
        out['demo_clean_rc'] = rc_c
        out['demo_changed_rc'] = rc_m
        out['demo_changed_tail'] = o_m.strip().splitlines()[-3:] if o_m.strip() else []
        out['confirmed'] = out['suite_ok'] and rc_c == 0 and rc_m != 0
        return out
    except Exception as ex:
        out['error'] = repr(ex)
        return out
    finally:
        shutil.rmtree(tmp, ignore_errors=True)

items = []
for prop in sorted(os.listdir(SRC)):
    for k in sorted(os.listdir(os.path.join(SRC, prop))):
        sd = os.path.join(SRC, prop, k)
        if os.path.exists(os.path.join(sd, 'patch.diff')):
            items.append((prop, k, sd))
with ThreadPoolExecutor(8) as ex:
    results = list(ex.map(verify, items))
ok = 0
for r, it in zip(results, items):
    print('%-7s applies=%s suite_ok=%s demo clean/changed rc=%s/%s confirmed=%s %s' % (r['name'], r.get('applies'), r.get('suite_ok'), r.get('demo_clean_rc'), r.get('demo_changed_rc'), r.get('confirmed'), r.get('error', '') or ('' if r.get('suite_ok') else r.get('suite'))))
    if r.get('confirmed'):
        ok += 1
        dst = os.path.join(VERIF, 'seeded', r['name'])
        os.makedirs(dst, exist_ok=True)
        shutil.copy(os.path.join(it[2], 'patch.diff'), dst)
        shutil.copy(os.path.join(it[2], r['demo']), dst)
        meta = json.load(open(os.path.join(it[2], 'meta.json')))
        meta['confirmed_by'] = {'what_i_ran': 'patch applied to a scratch copy of /repo HEAD (bcc5f54); existing suite: `cd <copy> && /venv/bin/python -m pytest -q -p no:cacheprovider --timeout=900 --continue-on-collection-errors`; demo: `cd <copy> && PYTHONPATH=. /venv/bin/python %s` in the unchanged and the changed copy' % r['demo'],
                                'suite_with_change': r['suite'], 'demo_rc_unchanged': r['demo_clean_rc'], 'demo_rc_changed': r['demo_changed_rc'],
                                'demo_output_changed_tail': r['demo_changed_tail']}
        json.dump(meta, open(os.path.join(dst, 'meta.json'), 'w'), indent=1)
print('confirmed', ok, 'of', len(items))
